#!/usr/bin/env python3
"""Side stages of the checks: sanitizer runs (Miri, AddressSanitizer, ThreadSanitizer, valgrind) and
the feature-subset builds of C17. Each stage observes real executions of the library built from
/repo's current working tree and writes a JSON summary {coverage, violations, inconclusive} that
`scv check --extra` merges into the verdict and the evidence file.

usage: stages.py <c01|c02|c16|c17> <quick|thorough> <out.json>
"""
import json, os, re, subprocess, sys, shutil, time, itertools, hashlib, collections, math

ROOT = os.environ.get("VERIF_ROOT", "/verif")
H = f"{ROOT}/harness"
BUILD = f"{ROOT}/.build"
TMP = f"{BUILD}/tmp"
SCV = f"{BUILD}/main/debug/scv"
SEED = int(os.environ.get("VERIF_SEED", "1") or "1")
ENV = dict(os.environ, CARGO_NET_OFFLINE="true")
TRIPLE = "x86_64-unknown-linux-gnu"


def run(cmd, env=None, timeout=3600, cwd=H):
    e = dict(ENV)
    if env:
        e.update(env)
    try:
        p = subprocess.run(cmd, cwd=cwd, env=e, stdout=subprocess.PIPE, stderr=subprocess.STDOUT, timeout=timeout, text=True, errors="replace")
        return p.returncode, p.stdout
    except subprocess.TimeoutExpired as ex:
        so = ex.stdout or ""
        if isinstance(so, bytes):
            so = so.decode("utf-8", "replace")
        return 124, so + "\n[stage watchdog: timed out]"


def corpus(n, tag):
    path = f"{TMP}/corpus-{tag}-{os.getpid()}.jsonl"
    rc, out = run([SCV, "gen-corpus", str(n), path, str(SEED)])
    if rc != 0:
        raise RuntimeError("gen-corpus failed: " + out[-400:])
    return path


def first_case(path):
    with open(path) as f:
        return json.loads(f.readline())


def keep_corpus(path, prop):
    os.makedirs(f"{ROOT}/replays", exist_ok=True)
    dst = f"{ROOT}/replays/{prop}-sanitizer-corpus-{hashlib.sha1(open(path,'rb').read()).hexdigest()[:12]}.jsonl"
    shutil.copy(path, dst)
    return dst


def in_repo_frame(text):
    m = re.search(r"(/repo/src/[\w/]+\.rs:\d+)", text)
    if m:
        return m.group(1)
    m = re.search(r"(src/eval_\w+/\w+\.rs:\d+)", text)
    return m.group(1) if m else "no-in-repo-frame"


def violation(prop, tool, kind, detail, corpus_path):
    frame = in_repo_frame(detail)
    kept = keep_corpus(corpus_path, prop)
    site = re.sub(r":\d+$", "", frame)
    return {
        "property": prop, "config": tool, "class": f"{tool}-report",
        "sig": f"{prop}|{tool}|{kind}|{site}",
        "detail": f"{tool} reported {kind} at {frame}; corpus kept at {kept}; report: " + detail[:2500],
        "seed": SEED, "case": first_case(corpus_path),
    }


def miri_stage(prop, mode, n_calls, threads, seeds):
    cov = {"tool": "miri", "mode": mode, "seeds": seeds, "corpus_calls": n_calls, "threads": threads}
    viol, inc = [], []
    c = corpus(n_calls, f"miri-{mode}")
    flags = f"-Zmiri-disable-isolation -Zmiri-deterministic-floats -Zmiri-many-seeds=0..{seeds}"
    t0 = time.time()
    rc, out = run(["cargo", "+nightly", "miri", "run", "--offline", "--bin", "scv_san", "--", mode, c] + ([str(threads)] if mode == "c16" else []),
                  env={"MIRIFLAGS": flags, "CARGO_TARGET_DIR": f"{BUILD}/miri"}, timeout=3000)
    cov["wall_s"] = round(time.time() - t0, 1)
    done = len(re.findall(r"^SAN-DONE", out, re.M))
    cov["runs_completed"] = done
    cov["calls_interpreted"] = sum(int(x) for x in re.findall(r"^SAN-DONE mode=\w+ calls=(\d+)", out, re.M))
    ub = re.findall(r"error: Undefined Behavior: [^\n]*", out)
    race = [u for u in ub if "ata race" in u]
    mism = re.findall(r"^SAN-MISMATCH[^\n]*", out, re.M)
    cov["reports"] = len(ub) + len(mism)
    if ub:
        kind = "data-race" if race else "undefined-behaviour"
        i = out.find(ub[0])
        viol.append(violation(prop, "miri", kind, out[i:i + 3000], c))
    if mism:
        viol.append(violation(prop, "miri", "outcome-mismatch", "\n".join(mism[:5]), c))
    if not ub and not mism:
        if rc != 0 or done < seeds:
            # panics inside the library are C01's (natively monitored); here anything else is a tool problem
            if "SAN-PANIC" in out and done >= seeds:
                pass
            else:
                inc.append(f"miri stage did not complete cleanly (rc={rc}, runs {done}/{seeds}): " + out[-600:].replace("\n", " | "))
    cov["status"] = "clean" if not viol and not inc else ("report" if viol else "inconclusive")
    os.remove(c)
    return cov, viol, inc


def build_san(kind):
    if kind == "asan":
        env = {"RUSTFLAGS": "-Zsanitizer=address -Cforce-frame-pointers=yes", "CARGO_TARGET_DIR": f"{BUILD}/asan", "CARGO_PROFILE_DEV_DEBUG": "line-tables-only"}
        cmd = ["cargo", "+nightly", "build", "--offline", "--target", TRIPLE, "--bin", "scv_san"]
    else:
        env = {"RUSTFLAGS": "-Zsanitizer=thread", "CARGO_TARGET_DIR": f"{BUILD}/tsan", "CARGO_PROFILE_DEV_DEBUG": "line-tables-only"}
        cmd = ["cargo", "+nightly", "build", "--offline", "-Zbuild-std", "--target", TRIPLE, "--bin", "scv_san"]
    rc, out = run(cmd, env=env, timeout=1800)
    return rc, out, f"{BUILD}/{kind}/{TRIPLE}/debug/scv_san"


def asan_stage(prop, n_calls, shards):
    cov = {"tool": "asan", "corpus_calls": n_calls, "processes": shards}
    viol, inc = [], []
    rc, out, exe = build_san("asan")
    if rc != 0:
        return dict(cov, status="inconclusive"), [], ["AddressSanitizer build failed: " + out[-500:].replace("\n", " | ")]
    done = reports = 0
    for k in range(shards):
        c = corpus(n_calls // shards, f"asan-{k}")
        # different corpus per shard
        global SEED
        SEED += 1000
        rc, out = run([exe, "c01", c], env={"ASAN_OPTIONS": "halt_on_error=1:abort_on_error=0:detect_leaks=1:exitcode=66"}, timeout=1200)
        if "ERROR: AddressSanitizer" in out or "ERROR: LeakSanitizer" in out:
            reports += 1
            i = out.find("ERROR: ")
            kind = re.search(r"ERROR: \w+Sanitizer: ([\w-]+)", out)
            viol.append(violation(prop, "asan", kind.group(1) if kind else "report", out[i:i + 3000], c))
        elif "SAN-DONE" in out:
            done += int(re.search(r"calls=(\d+)", out).group(1))
        elif rc in (-6, 134) or "non-unwinding panic" in out or "unsafe precondition" in out:
            # the instrumented build aborted inside a call (e.g. a violated unsafe precondition): C01's
            reports += 1
            viol.append(violation(prop, "asan", "abort", out[-2000:], c))
        else:
            inc.append(f"asan shard {k} ended without result (rc={rc}): " + out[-300:].replace("\n", " | "))
        os.remove(c)
    SEED -= 1000 * shards
    cov.update(calls_executed=done, reports=reports, status="clean" if not viol and not inc else ("report" if viol else "inconclusive"))
    return cov, viol, inc


def tsan_stage(prop, n_calls, threads, reps):
    cov = {"tool": "tsan", "corpus_calls": n_calls, "threads": threads, "repetitions": reps}
    viol, inc = [], []
    rc, out, exe = build_san("tsan")
    if rc != 0:
        return dict(cov, status="inconclusive"), [], ["ThreadSanitizer build failed: " + out[-500:].replace("\n", " | ")]
    done = reports = 0
    seen = set()
    c = corpus(n_calls, "tsan")
    for r in range(reps):
        rc, out = run([exe, "c16", c, str(threads)], env={"TSAN_OPTIONS": "halt_on_error=0:exitcode=66"}, timeout=1200)
        blocks = out.split("WARNING: ThreadSanitizer: ")[1:]
        for b in blocks:
            frames = re.findall(r"(/repo/src/[\w/]+\.rs):\d+", b)
            key = (b.split("\n")[0].split(" (")[0], tuple(frames[:2]))
            if key not in seen:
                seen.add(key)
                reports += 1
                viol.append(violation(prop, "tsan", "data-race" if "data race" in b else "report", "WARNING: ThreadSanitizer: " + b[:3000], c))
        m = re.search(r"SAN-DONE mode=c16 calls=(\d+)", out)
        if m:
            done += int(m.group(1))
        elif not blocks:
            inc.append(f"tsan repetition {r} ended without result (rc={rc}): " + out[-300:].replace("\n", " | "))
        mism = re.findall(r"^SAN-MISMATCH[^\n]*", out, re.M)
        if mism and not blocks:
            viol.append(violation(prop, "tsan", "outcome-mismatch", "\n".join(mism[:5]), c))
    os.remove(c)
    cov.update(calls_executed=done, distinct_reports=reports, status="clean" if not viol and not inc else ("report" if viol else "inconclusive"))
    return cov, viol, inc


def valgrind_stage(prop, n_calls):
    cov = {"tool": "valgrind-memcheck", "corpus_calls": n_calls}
    viol, inc = [], []
    exe = f"{BUILD}/main/release/scv_san"
    c = corpus(n_calls, "valgrind")
    rc, out = run(["valgrind", "--error-exitcode=9", "--leak-check=no", "--num-callers=30", exe, "c01", c], timeout=1800)
    m = re.search(r"ERROR SUMMARY: (\d+) errors", out)
    errs = int(m.group(1)) if m else -1
    if errs > 0:
        i = out.find("==", out.find("Invalid") if "Invalid" in out else 0)
        viol.append(violation(prop, "valgrind", "memcheck-error", out[max(0, i):][:3000], c))
    elif "SAN-DONE" not in out:
        inc.append(f"valgrind stage ended without result (rc={rc}): " + out[-300:].replace("\n", " | "))
    dm = re.search(r"SAN-DONE mode=c01 calls=(\d+)", out)
    cov.update(calls_executed=int(dm.group(1)) if dm else 0, errors=max(errs, 0), status="clean" if not viol and not inc else ("report" if viol else "inconclusive"))
    os.remove(c)
    return cov, viol, inc


# ------------------------------------------------------------------------------------------ C17

EVS = ["eval_f64", "eval_i64", "eval_decimal", "eval_complex", "eval_number"]
SHORT = {"eval_f64": "f64", "eval_i64": "i64", "eval_decimal": "decimal", "eval_complex": "complex", "eval_number": "number"}


def c17_stage(tier):
    """All 31 non-empty feature subsets: build the probe crate, run the export probes, run the corpus in
    each configuration and compare every outcome with the all-features build."""
    P = f"{H}/probes"
    cov = {"feature_subsets": 31}
    viol, inc = [], []
    n = 2500 if tier == "quick" else 40000
    c = f"{TMP}/c17-corpus-{os.getpid()}.jsonl"
    rc, out = run([SCV, "gen-c17-corpus", str(n), c, str(SEED)])
    if rc != 0:
        return cov, [], ["cannot generate the C17 corpus: " + out[-300:]]
    subsets = [list(s) for k in range(1, 6) for s in itertools.combinations(EVS, k)]
    subsets.sort(key=lambda s: -len(s))
    # the baseline is the crate's default build (its own `default` feature list, dependency features
    # included), not the five evaluator features spelled out: that one is subset number 31
    DEFAULT = "default"
    subsets.insert(0, DEFAULT)
    results = {}
    import concurrent.futures

    def build_and_run(sub):
        if sub == DEFAULT:
            name, feats, sub = "default", "default_build", list(EVS)
        else:
            name = "+".join(SHORT[e] for e in sub)
            feats = ",".join(sub)
        tdir = f"{BUILD}/feat/{name}"
        rc, out = run(["cargo", "build", "--offline", "--no-default-features", "--features", feats, "--bin", "scv_feat"], env={"CARGO_TARGET_DIR": tdir}, cwd=P, timeout=1200)
        if rc != 0:
            return name, sub, {"build": False, "log": out[-1500:]}
        r = {"build": True}
        rc, out = run([f"{tdir}/debug/scv_feat", c], timeout=1200)
        r["run_rc"] = rc
        r["lines"] = out.splitlines()
        return name, sub, r

    with concurrent.futures.ThreadPoolExecutor(max_workers=8) as ex:
        for name, sub, r in ex.map(build_and_run, subsets):
            results[name] = (sub, r)
    first = json.loads(open(c).readline().split("\t")[1])
    built = 0
    compared = 0
    base = results.pop("default")[1]
    if not base.get("build"):
        return cov, [], ["the default-features probe build failed: " + base.get("log", "")[-500:].replace("\n", " | ")]
    base_map = {}
    for l in base["lines"]:
        p = l.split("\t", 2)
        if len(p) == 3:
            base_map[p[0]] = (p[1], p[2])
    cov["corpus_calls"] = len(base_map)
    differing = 0
    export_checks = 0
    for name, (sub, r) in results.items():
        if not r.get("build"):
            viol.append({"property": "C17", "config": name, "class": "subset-does-not-build", "sig": f"C17|{name}|subset-does-not-build",
                         "detail": "cargo build --no-default-features --features " + ",".join(sub) + " failed: " + r.get("log", "")[-1200:], "seed": SEED, "case": first})
            continue
        built += 1
        got_evs = set()
        for l in r["lines"]:
            if l.startswith("EXPORTS\t"):
                got_evs = set(l.split("\t")[1].split(",")) - {""}
                continue
            p = l.split("\t", 2)
            if len(p) != 3:
                continue
            compared += 1
            b = base_map.get(p[0])
            if b is None or b[1] != p[2]:
                differing += 1
                if differing <= 5:
                    case = json.loads(b[0]) if b else first
                    viol.append({"property": "C17", "config": name, "class": "behaviour-differs-from-default-build", "sig": f"C17|{name}|behaviour-differs|{case.get('evaluator','?')}",
                                 "detail": f"in the build with only {','.join(sub)}: {p[2]} ; in the default build: {b[1] if b else '(missing)'}", "seed": SEED, "case": case})
        want = set(SHORT[e] for e in sub)
        export_checks += 1
        if got_evs != want:
            viol.append({"property": "C17", "config": name, "class": "wrong-export-set", "sig": f"C17|{name}|wrong-export-set",
                         "detail": f"features {','.join(sub)} export evaluators {sorted(got_evs)}, expected {sorted(want)}", "seed": SEED, "case": first})
    # negative export probes: an unselected evaluator must not be nameable
    neg_ok = neg_bad = 0
    for name, (sub, r) in results.items():
        if not r.get("build") or len(sub) == 5:
            continue
        tdir = f"{BUILD}/feat/{name}"
        missing = [e for e in EVS if e not in sub]
        e = missing[hash(name) % len(missing)]
        rc, out = run(["cargo", "build", "--offline", "--no-default-features", "--features", ",".join(sub) + ",probe_" + e, "--bin", "scv_feat"], env={"CARGO_TARGET_DIR": tdir}, cwd=P, timeout=1200)
        if rc == 0:
            neg_bad += 1
            viol.append({"property": "C17", "config": name, "class": "unselected-evaluator-exported", "sig": f"C17|{name}|unselected-evaluator-exported|{e}",
                         "detail": f"with features {','.join(sub)} the item string_calculator::{e} still resolves", "seed": SEED, "case": first})
        elif "unresolved import" in out or "no `" + e + "` in the root" in out or "E0432" in out:
            neg_ok += 1
        else:
            inc.append(f"negative export probe for {e} in {name} failed for another reason: " + out[-300:].replace("\n", " | "))
    samples = []
    for l in base["lines"][1:4]:
        p = l.split("\t", 2)
        if len(p) == 3:
            samples.append({"configuration": "every subset containing the evaluator", "case": json.loads(p[1]), "outcome_in_default_build": p[2]})
    cov["counters"] = {"evaluations": compared, "distinct_nontrivial": compared, "passed": compared - differing}
    cov["samples"] = samples
    cov.update(subsets_built=built, outcomes_compared=compared, outcomes_differing=differing, export_sets_checked=export_checks, negative_export_probes_rejected=neg_ok, negative_export_probes_accepted=neg_bad)
    shutil.rmtree(f"{BUILD}/feat", ignore_errors=True)
    os.remove(c)
    return cov, viol, inc


# ----------------------------------------------------------------------------------------------
# C02: instruction-count backstop. The step counter of the hook commit sees only the loops that carry
# a tick(); a loop added later carries none. Here every call of a corpus built from magnitude bombs,
# every construct repeated up to 256 characters and large random trees runs under cachegrind
# (instruction counting only), and the instructions executed per call must stay below a fixed linear
# function of the input length. Deterministic (no clock involved); the bound sits about 16x above
# the most expensive call of the pinned tree and three orders of magnitude below what the CPU-time
# watchdog of the workers can see.
IBUDGET_A, IBUDGET_B = 10_000_000, 1_000_000


def ibudget(n_chars):
    return IBUDGET_A + IBUDGET_B * n_chars


def c02_stage(tier):
    import concurrent.futures, math, collections
    exe = f"{BUILD}/main/release/scv_san"
    cov = {"tool": "valgrind --tool=cachegrind --cache-sim=no (instruction counts)", "budget": f"{IBUDGET_A} + {IBUDGET_B}*chars instructions per call"}
    viol, inc = [], []
    wd = f"{TMP}/c02-work-{os.getpid()}"
    os.makedirs(wd, exist_ok=True)
    c = f"{wd}/corpus.jsonl"
    n_random, n_bombs = (300, 10**9) if tier == "quick" else (3000, 10**9)
    rc, out = run([f"{BUILD}/main/release/scv", "gen-work-corpus", str(n_random), c, str(SEED), str(n_bombs)])
    if rc != 0:
        return cov, [], ["cannot generate the work corpus: " + out[-300:]]
    lines = [l for l in open(c, encoding="utf-8").read().split("\n") if l]  # not splitlines(): U+2028, U+0085 occur inside expressions
    cases = [json.loads(l) for l in lines]
    if tier == "quick":
        # the longest member of every family only; the 64- and 128-character members belong to the growth table of the thorough tier
        keep = [i for i, j in enumerate(cases) if j["kind"] in ("bomb", "random") or j["extra"] == "256"]
    else:
        keep = list(range(len(cases)))
    nchars = {i: len(cases[i]["exprs"][0]) for i in keep}

    def irefs(idxs, reps, tag):
        path = f"{wd}/{tag}.jsonl"
        with open(path, "w") as f:
            for i in idxs:
                f.write(lines[i] + "\n")
        rc, out = run(["valgrind", "--tool=cachegrind", "--cache-sim=no", "--cachegrind-out-file=/dev/null", exe, "work", path, str(reps)], timeout=900)
        os.remove(path)
        m = re.search(r"I\s+refs:\s+([\d,]+)", out)
        if rc != 0 or not m or "SAN-DONE mode=work" not in out:
            return None, out[-400:]
        return int(m.group(1).replace(",", "")), ""

    base, why = irefs([keep[0]], 0, "base")
    if base is None:
        shutil.rmtree(wd, ignore_errors=True)
        return cov, [], ["cachegrind baseline run failed: " + why.replace("\n", " | ")]
    # batches of calls of similar length; a batch whose total stays below the smallest budget in it
    # needs no further look, any other batch is measured call by call
    keep.sort(key=lambda i: nchars[i])
    singles = [i for i in keep if tier == "thorough" and cases[i]["kind"] not in ("bomb", "random")]
    rest = [i for i in keep if i not in set(singles)]
    batches = [rest[k:k + 200] for k in range(0, len(rest), 200)]
    per_call = {}
    measured = 0
    worst = (0.0, None)

    def do_batch(bi):
        # bisection: a group whose total exceeds the smallest budget in it is split until the call is alone
        outl = []
        todo = [(batches[bi], f"b{bi}")]
        while todo:
            b, tag = todo.pop()
            tot, why = irefs(b, 1, tag)
            if tot is None:
                outl.append(("inc", f"batch {tag}: {why}"))
                continue
            cost = max(tot - base, 0)
            if len(b) == 1:
                outl.append(("one", b[0], cost))
            elif cost <= min(ibudget(nchars[i]) for i in b):
                outl.append(("ok", b, cost))
            else:
                h = len(b) // 2
                todo.append((b[:h], tag + "l"))
                todo.append((b[h:], tag + "r"))
        return outl

    def do_single(i):
        t, why = irefs([i], 2, f"s{i}")
        return [("inc", f"call {i}: {why}")] if t is None else [("one", i, max(t - base, 0) // 2)]

    with concurrent.futures.ThreadPoolExecutor(max_workers=16) as ex:
        results = list(ex.map(do_batch, range(len(batches)))) + list(ex.map(do_single, singles))
    batch_max = 0
    for rl in results:
        for r in rl:
            if r[0] == "inc":
                inc.append("instruction count not obtained (" + r[1].replace("\n", " | ")[-300:] + ")")
            elif r[0] == "ok":
                measured += len(r[1])
                batch_max = max(batch_max, r[2])
            else:
                _, i, cost = r
                measured += 1
                per_call[i] = cost
                ratio = cost / ibudget(nchars[i])
                if ratio > worst[0]:
                    worst = (ratio, i)
                if cost > ibudget(nchars[i]):
                    j = cases[i]
                    fam = j["kind"]
                    viol.append({"property": "C02", "config": "cachegrind", "class": "instruction-budget", "sig": f"C02|{j['evaluator']}|instruction-budget|{fam}",
                                 "detail": f"{cost} instructions for one call of {nchars[i]} characters, budget {ibudget(nchars[i])} ({IBUDGET_A}+{IBUDGET_B}*chars)", "seed": SEED, "case": j})
    cov["counters"] = {"instruction_measurements": measured}
    cov["instruction_calls_measured"] = measured
    cov["instruction_calls_measured_individually"] = len(per_call)
    cov["instruction_batches"] = len(batches)
    cov["largest_batch_total_instructions"] = batch_max
    if worst[1] is not None:
        j = cases[worst[1]]
        cov["most_expensive_call_relative_to_budget"] = {"ratio": round(worst[0], 4), "instructions": per_call[worst[1]], "chars": nchars[worst[1]], "evaluator": j["evaluator"], "family": j["kind"], "expr": j["exprs"][0][:80]}
    if tier == "thorough":
        # growth of the instruction count with the length, per (evaluator, family): reported, not judged
        fam = collections.defaultdict(dict)
        for i, cost in per_call.items():
            j = cases[i]
            if j["extra"] in ("64", "128", "256"):
                fam[(j["evaluator"], j["kind"])][int(j["extra"])] = (nchars[i], cost)
        hist = collections.Counter()
        for k, v in fam.items():
            if 128 in v and 256 in v and v[128][1] > 0 and v[256][0] > v[128][0]:
                e = math.log(v[256][1] / v[128][1]) / math.log(v[256][0] / v[128][0])
                hist[str(round(e * 2) / 2)] += 1
        cov["growth_exponent_128_to_256_chars_histogram"] = dict(sorted(hist.items()))
    if measured < 20000:
        inc.append(f"only {measured} calls measured under cachegrind")
    shutil.rmtree(wd, ignore_errors=True)
    return cov, viol, inc


FUZZ_PROPS = ["C01", "C02", "C03", "C04", "C05", "C06", "C07", "C08", "C09", "C10", "C12", "C13", "C14", "C18", "C20"]


def fuzz_stage(prop, secs, jobs=16, sanitizer="none"):
    """Coverage-guided workload: libFuzzer (harness/fuzz, target `omni`) chooses inputs under coverage
    feedback from the library and the reference parser; the property's ordinary monitor judges each one
    inside the fuzzing process, and every candidate it writes is re-judged here by the regular `checked`
    and `release` binaries before it counts. Crashes of the fuzzing process itself (the instrumented
    build needs more stack than the regular one) are only candidates too."""
    import resource, glob
    cov = {"tool": f"libFuzzer (cargo-fuzz, sanitizer {sanitizer}, value profile, fork mode)", "property": prop, "seconds": secs, "jobs": jobs}
    viol, inc = [], []
    t0 = time.time()
    tdir = f"{BUILD}/fuzz" if sanitizer == "none" else f"{BUILD}/fuzz-{sanitizer}"
    rc, out = run(["cargo", "+nightly", "fuzz", "build", "-s", sanitizer, "--target-dir", tdir, "omni"], timeout=1800)
    binp = f"{tdir}/{TRIPLE}/release/omni"
    if rc != 0 or not os.path.exists(binp):
        inc.append("fuzz target did not build: " + out[-500:].replace("\n", " | "))
        cov["status"] = "inconclusive"
        return cov, viol, inc
    cov["build_s"] = round(time.time() - t0, 1)
    wd = f"{TMP}/fuzz-{prop}-{sanitizer}-{os.getpid()}"
    shutil.rmtree(wd, ignore_errors=True)
    for d in ("corpus", "seeds", "out"):
        os.makedirs(f"{wd}/{d}")
    rc1, o1 = run([SCV, "fuzz-seeds", f"{wd}/seeds", "1500", str(SEED)])
    rc2, o2 = run([SCV, "fuzz-dict", f"{wd}/dict"])
    if rc1 != 0 or rc2 != 0:
        inc.append("fuzz seeds / dictionary could not be generated: " + (o1 + o2)[-300:])
        shutil.rmtree(wd, ignore_errors=True)
        return cov, viol, inc
    cov["seed_inputs"] = len(os.listdir(f"{wd}/seeds"))
    env = dict(ENV, SCV_FUZZ_PROP=prop, SCV_FUZZ_OUT=f"{wd}/out")
    if sanitizer == "address":
        env["ASAN_OPTIONS"] = "detect_leaks=0:abort_on_error=1:symbolize=1:detect_stack_use_after_return=0"
        env["ASAN_SYMBOLIZER_PATH"] = shutil.which("llvm-symbolizer-14") or shutil.which("llvm-symbolizer") or ""
    cmd = [binp, f"-fork={jobs}", f"-max_total_time={secs}", "-timeout=20", "-rss_limit_mb=4096", "-max_len=700", f"-dict={wd}/dict", "-use_value_profile=1",
           "-ignore_crashes=1", "-ignore_timeouts=1", "-ignore_ooms=1", f"-seed={SEED}", f"-artifact_prefix={wd}/out/", f"{wd}/corpus", f"{wd}/seeds"]

    def big_stack():
        resource.setrlimit(resource.RLIMIT_STACK, (256 * 1024 * 1024, resource.RLIM_INFINITY))
    try:
        p = subprocess.run(cmd, cwd=wd, env=env, stdout=subprocess.PIPE, stderr=subprocess.STDOUT, timeout=secs * 4 + 600, text=True, errors="replace", preexec_fn=big_stack)
        out, rc = p.stdout, p.returncode
    except subprocess.TimeoutExpired as ex:
        out, rc = (ex.stdout or b"").decode("utf-8", "replace") if isinstance(ex.stdout, bytes) else (ex.stdout or ""), 124
    prog = re.findall(r"#(\d+): cov: (\d+) ft: (\d+) corp: (\d+) exec/s:? (\d+) oom/timeout/crash: (\d+)/(\d+)/(\d+)", out)
    if prog:
        last = prog[-1]
        cov.update({"fuzzer_executions": int(last[0]), "coverage_edges": int(last[1]), "coverage_features": int(last[2]), "corpus_size": int(last[3]),
                    "fuzzer_ooms": int(last[5]), "fuzzer_timeouts": int(last[6]), "fuzzer_crashes": int(last[7])})
    if sanitizer != "none":
        # the sanitizer is the monitor here: a report is a violation whether or not a result changed. In
        # fork mode the parent only relays the first line of a report, so every input that ended a job is
        # run once more on its own under the same instrumented binary to obtain the whole report.
        cov["sanitizer_report_lines_in_fuzzer_output"] = len(re.findall(r"ERROR: AddressSanitizer", out))
        seen_sites = set()
        reruns = 0
        for art in sorted(glob.glob(f"{wd}/out/crash-*"))[:16]:
            try:
                pr = subprocess.run([binp, art], cwd=wd, env=env, stdout=subprocess.PIPE, stderr=subprocess.STDOUT, timeout=120, text=True, errors="replace", preexec_fn=big_stack)
                r = pr.stdout
            except subprocess.TimeoutExpired:
                continue
            reruns += 1
            m = re.search(r"ERROR: AddressSanitizer: ([\w-]+)", r)
            if not m:
                continue
            kind = m.group(1)
            if kind in ("stack-overflow", "out-of-memory", "allocation-size-too-big"):
                continue  # resource exhaustion of the instrumented build, judged natively by the regular binaries
            r = r[m.start():]
            first_stack = re.search(r"((?:^\s*#\d+ [^\n]*\n)+)", r, re.M)
            stack_text = first_stack.group(1) if first_stack else r
            frame = in_repo_frame(stack_text)
            site = re.sub(r":\d+$", "", frame)
            if (kind, site) in seen_sites:
                continue
            seen_sites.add((kind, site))
            case = None
            rcx, ox = run([SCV, "fuzz-decode", prop, art])
            try:
                case = json.loads(ox.splitlines()[0])["case"]
            except Exception:
                pass
            os.makedirs(f"{ROOT}/replays", exist_ok=True)
            kept = f"{ROOT}/replays/{prop}-asan-fuzz-input-{hashlib.sha1(open(art,'rb').read()).hexdigest()[:12]}"
            shutil.copy(art, kept)
            viol.append({"property": prop, "config": "fuzz-asan", "class": "asan-report", "sig": f"{prop}|asan|{kind}|{site}", "seed": SEED, "case": case or {},
                         "detail": f"AddressSanitizer reported {kind} at {frame} for an input found by the coverage-guided stage (kept at {kept}); report: " + r[:2500]})
        cov["sanitizer_inputs_rerun"] = reruns
        cov["sanitizer_reports"] = len(seen_sites)
    tot = collections.Counter()
    for f in glob.glob(f"{wd}/out/stats-*.json"):
        try:
            for k, v in json.load(open(f)).items():
                tot[k] += v
        except Exception:
            pass
    cov["inputs_decoded"] = tot["decoded"]
    cov["cases_judged"] = {"pass": tot["pass"], "no_verdict": tot["skip"], "violation_candidates": tot["viol"]}
    cov["library_calls"] = tot["calls"]
    # candidates written by the in-process monitors
    cand = f"{wd}/cand-all.jsonl"
    with open(cand, "w") as w:
        for f in sorted(glob.glob(f"{wd}/out/cand-*.jsonl")):
            w.write(open(f).read())
    arts = sorted(glob.glob(f"{wd}/out/crash-*") + glob.glob(f"{wd}/out/timeout-*") + glob.glob(f"{wd}/out/oom-*"))
    cov["fuzzer_artifacts"] = len(arts)
    seen = set()

    def confirm(path, what):
        n_conf = 0
        for cfgname, b in (("checked", SCV), ("release", f"{BUILD}/main/release/scv")):
            rc, o = run([b, "fuzz-confirm", prop, path], timeout=900)
            lines = re.findall(r"^CONFIRMED (.*)$", o, re.M)
            for l in lines:
                try:
                    j = json.loads(l)
                except Exception:
                    continue
                n_conf += 1
                if j["sig"] in seen:
                    continue
                seen.add(j["sig"])
                j["seed"] = SEED
                j["detail"] = f"[found by the coverage-guided stage, {what}] " + j["detail"]
                viol.append(j)
            if rc != 0 and not lines:
                first = None
                try:
                    first = json.loads(open(path).readline())["case"]
                except Exception:
                    pass
                if rc < 0 or rc in (134, 139):
                    if prop == "C01" and first is not None:
                        sig = f"C01|{first['evaluator']}|abort|fuzz"
                        if sig not in seen:
                            seen.add(sig)
                            viol.append({"property": prop, "config": cfgname, "class": "abort", "sig": sig, "seed": SEED, "case": first,
                                         "detail": f"[coverage-guided stage, {what}] the regular {cfgname} binary was killed (rc={rc}) while evaluating this case"})
                    else:
                        inc.append(f"re-judging a fuzz candidate killed the {cfgname} binary (rc={rc}); aborts are C01's")
                elif rc == 124:
                    if prop == "C02" and first is not None:
                        sig = f"C02|{first['evaluator']}|cpu-timeout|fuzz"
                        if sig not in seen:
                            seen.add(sig)
                            viol.append({"property": prop, "config": cfgname, "class": "cpu-timeout", "sig": sig, "seed": SEED, "case": first,
                                         "detail": f"[coverage-guided stage, {what}] one call did not return within 900 s in the regular {cfgname} binary"})
                    else:
                        inc.append(f"re-judging a fuzz candidate timed out in the {cfgname} binary")
                else:
                    inc.append(f"fuzz-confirm failed (rc={rc}): " + o[-300:].replace("\n", " | "))
        return n_conf
    n_cand = sum(1 for _ in open(cand))
    cov["candidates_written"] = n_cand
    cov["candidates_confirmed"] = confirm(cand, "monitor inside the fuzzing process") if n_cand else 0
    unconfirmed = 0
    for a in arts[:24]:
        rc, o = run([SCV, "fuzz-decode", prop, a])
        one = f"{wd}/art.jsonl"
        open(one, "w").write(o)
        if o.strip():
            if confirm(one, "input that ended a fuzzing process: " + os.path.basename(a).split("-")[0]) == 0:
                unconfirmed += 1
    cov["artifacts_not_reproduced_by_the_regular_binaries"] = unconfirmed
    if tot["pass"] + tot["skip"] < 20000 or not prog:
        inc.append(f"coverage-guided stage observed too little: {tot['pass'] + tot['skip']} cases judged, fuzzer output: " + out[-300:].replace("\n", " | "))
    cov["wall_s"] = round(time.time() - t0, 1)
    cov["status"] = "clean" if not viol and not inc else ("report" if viol else "inconclusive")
    shutil.rmtree(wd, ignore_errors=True)
    return cov, viol, inc


def main():
    stage, tier, outp = sys.argv[1], sys.argv[2], sys.argv[3]
    os.makedirs(TMP, exist_ok=True)
    san, viol, inc = [], [], []
    extra_cov = {}
    t_start = time.time()
    try:
        if stage == "c16":
            if tier == "quick":
                c, v, i = miri_stage("C16", "c16", 25, 3, 8)
            else:
                c, v, i = miri_stage("C16", "c16", 40, 4, 32)
            san.append(c); viol += v; inc += i
            if tier == "thorough":
                c, v, i = tsan_stage("C16", 6000, 16, 3)
                san.append(c); viol += v; inc += i
        elif stage == "c01":
            if tier == "thorough":
                for st in (lambda: asan_stage("C01", 48000, 16), lambda: miri_stage("C01", "c01", 300, 1, 1), lambda: valgrind_stage("C01", 3000)):
                    c, v, i = st()
                    san.append(c); viol += v; inc += i
        elif stage == "c17":
            extra_cov, viol, inc = c17_stage(tier)
        elif stage == "c02":
            c, viol, inc = c02_stage(tier)
            san.append(c)
        elif stage.startswith("fuzz:"):
            pass
        prop = stage.split(":", 1)[1] if stage.startswith("fuzz:") else stage.upper()
        if tier == "thorough" and prop in FUZZ_PROPS:
            c, v, i = fuzz_stage(prop, int(os.environ.get("SCV_FUZZ_SECS", "75")))
            extra_cov = dict(extra_cov, coverage_guided=c); viol += v; inc += i
            if prop == "C01":
                # the same workload under AddressSanitizer: memory errors that change no result
                c, v, i = fuzz_stage(prop, int(os.environ.get("SCV_FUZZ_SECS", "75")), sanitizer="address")
                extra_cov = dict(extra_cov, coverage_guided_asan=c); viol += v; inc += i
    except Exception as ex:  # a stage that cannot run is inconclusive, never a verdict
        inc.append(f"stage {stage} failed to run: {ex!r}")
    cov = dict(extra_cov)
    cov["stage_wall_s"] = round(time.time() - t_start, 1)
    if san:
        cov["sanitizers"] = san
    json.dump({"coverage": cov, "violations": viol, "inconclusive": inc}, open(outp, "w"))


if __name__ == "__main__":
    main()
