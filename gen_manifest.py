#!/usr/bin/env python3
"""Regenerates MANIFEST.json from the table below (kept next to the checks so the two stay in step)."""
import json, subprocess
CLAIMED = {
 "C01": ("catch_unwind/abort monitor over exhaustive + random hostile inputs, both overflow-check configurations",
         "exploration", "Every call crosses the recording boundary under catch_unwind in worker processes; a panic, a process abort (pinned on the input by a trace-mode re-run) is a violation. Exhaustive over short token/character sequences, random and mutated beyond; held-on-observed, not a proof over all 256-char strings.",
         "8 MiB stack; Rust panic=unwind; sanitizer sub-runs (ASan, Miri, valgrind) in the thorough tier", "§5 C01"),
 "C02": ("step-counter invariant hook (verif_hooks tick budget) + CPU-time watchdog",
         "exploration", "Each call is armed with a budget of exactly 4096+256*len counted steps through the cfg-guarded counter; exceeding it, or consuming more than the CPU backstop in one call, is a violation. Workloads aim every looping construct at extreme arguments.",
         "steps are counted only where tick() is placed (all loops and recursive calls of the crate); loops inside dependencies fall to the CPU watchdog", "§5 C02"),
 "C03": ("reference-model monitor: independent lexer + recursive-descent recogniser",
         "exploration", "Every outcome is compared with an independently written recogniser of the grammar: Ok on a rejected string, or Err on an accepted string inside the defined core, is a violation. Exhaustive over bounded token and character sequences, random near-misses beyond.",
         "the reference grammar (DESIGN §3.1/3.2) is the specification; unspecified groupings after postfix operators give no verdict", "§5 C03"),
}
PENDING_REASON = "check not built yet in this round (planned: DESIGN.md §5)"
props=[json.loads(l)["id"] for l in open("/verif/properties.jsonl")]
hooks_commit = subprocess.run(["git","-C","/repo","log","--format=%H","--grep=verif hooks"],capture_output=True,text=True).stdout.split()
m = {
 "version": 1,
 "setup_cmd": "./check setup",
 "hooks": {
   "guard": "verif_hooks",
   "enable": "cargo feature: the harness depends on string_calculator by path with features=[\"verif_hooks\"]",
   "baseline_off_cmd": "cd /repo && cargo test --workspace --no-fail-fast --offline",
   "source_commits": hooks_commit,
   "add_only": True
 },
 "engines": [
   {"name":"scv","path":"harness/","serves_properties":sorted(CLAIMED),"kind_free_text":"Rust harness: recording boundary around the public API, reference-model / metamorphic / invariant-hook monitors, worker processes with abort and hang pinning"}
 ],
 "checks": [],
 "not_applicable": [],
 "notes": "Family: runtime monitoring and sanitizers. Exit 0 = held on everything explored, 1 = VIOLATION line, 3 = inconclusive (never on a healthy tree). known_findings.json lists recorded findings and fixed defects."
}
for p in props:
    if p in CLAIMED:
        tech, cat, text, note, ref = CLAIMED[p]
        m["checks"].append({
          "property_id": p,
          "quick_cmd": f"./check {p} --tier quick",
          "thorough_cmd": f"./check {p} --tier thorough",
          "evidence_file": f"/verif/evidence/{p}.json",
          "replay_cmd_template": "./check replay {path}",
          "engine": "scv",
          "level_claimed": {"category": cat, "text": text, "design_ref": ref},
          "level_note": note,
          "technique": tech,
        })
    else:
        m["not_applicable"].append({"property_id": p, "reason": PENDING_REASON})
json.dump(m, open("/verif/MANIFEST.json","w"), indent=1, ensure_ascii=False)
print("claimed", len(m["checks"]), "pending", len(m["not_applicable"]))
