#!/usr/bin/env python3
"""Regenerates MANIFEST.json from the table below (kept next to the checks so the two stay in step)."""
import json, subprocess
CLAIMED = {
 "C01": ("catch_unwind/abort monitor over exhaustive + random hostile inputs, both overflow-check configurations; concurrent first-use sweeps in fresh processes",
         "exploration", "Every call crosses the recording boundary under catch_unwind in worker processes; a panic, or a process abort (pinned on the input by a trace-mode re-run), is a violation. Exhaustive over short token/character sequences, random and mutated beyond; held-on-observed, not a proof over all 256-char strings.",
         "8 MiB stack; Rust panic=unwind; sanitizer sub-runs (ASan, Miri, valgrind) in the thorough tier", "§5 C01"),
 "C02": ("step-counter invariant hook (verif_hooks tick budget) over inputs of up to 72 000 characters + instruction counting under cachegrind + CPU-time watchdog",
         "exploration", "Each call is armed with a budget of exactly 4096+256*len counted steps through the cfg-guarded counter; exceeding it, or consuming more than the CPU backstop in one call, is a violation. Workloads aim every looping construct at extreme arguments. A second, deterministic backstop for loops that carry no counter: every magnitude bomb, every construct repeated up to 256 characters and large random trees run under cachegrind, and the instructions per call must stay below 10^7 + 10^6*chars.",
         "steps are counted only where tick() is placed (all loops and recursive calls of the crate); work outside counted steps (loops added later, loops inside dependencies) is bounded by the instruction budget (about 16x the most expensive call of the pinned tree) and the CPU watchdog", "§5 C02"),
 "C03": ("reference-model monitor: independent lexer + recursive-descent recogniser",
         "exploration", "Every outcome is compared with an independently written recogniser of the grammar: Ok on a rejected string, or Err on an accepted string inside the defined core, is a violation. Exhaustive over bounded token and character sequences, random near-misses beyond.",
         "the reference grammar (DESIGN §3.1/3.2) is the specification; unspecified groupings after postfix operators give no verdict", "§5 C03"),
 "C04": ("reference-model monitor: exhaustive operator skeletons with discriminating operands vs reference tree evaluation",
         "exploration", "Every accepted operator/operand/bracket sequence up to the stated length (so every pair and triple of adjacent operators) is evaluated under three operand assignments and compared with the exact value of the independently derived tree; random trees beyond.",
         "reference grammar and exact reference arithmetic are the specification; operands are chosen to discriminate groupings", "§5 C04"),
 "C05": ("reference-model monitor: libm-through-FFI node-by-node evaluation, bit-exact comparison",
         "exploration", "Depth-1 sweep of every listed IEEE operation over all pairs of a boundary pool (subnormals, 2^53 neighbours, huge, NaN/inf via @) and random trees to depth 6, compared bit for bit with the host C library applied node by node.",
         "host libm = IEEE/C oracle; literal conversion trusted here and checked separately in C19", "§5 C05"),
 "C06": ("reference-model monitor (i128 exact arithmetic) + cross-configuration outcome digests",
         "exploration", "Exhaustive depth-1/2 over the i64 boundary pool and random trees against exact i128 arithmetic (value, must-Err, value-or-Err); every outcome is also digested per block and the digests of the overflow-checked and release builds must be identical.",
         "i128 arithmetic; the two cargo profiles reproduce overflow-checks on/off", "§5 C06"),
 "C07": ("reference-model monitor: exact rational arithmetic on own big integers",
         "exploration", "Depth-1 over a scale/magnitude boundary pool and random operands, trees over + - * with / % near the root, judged against exact rationals: representable results exact, quotients within 1e-27, zero divisors and out-of-range results Err (panic = violation).",
         "harness big-integer/rational code (unit-tested) is the oracle; in-range results needing rounding give no verdict", "§5 C07"),
 "C08": ("reference-model monitor (own complex pair arithmetic) + differential against eval_f64",
         "exploration", "Literal forms, depth-1 applications of every operator and function on generic operands against principal-branch definitions built from real functions, exact component formulas for + - *, and real operands compared with eval_f64 through the public API.",
         "harness complex formulas (cross-checked with mpmath during development); generic operands only for tolerance-checked functions", "§5 C08"),
 "C09": ("reference-model monitor: typed reference with sets of acceptable (variant, value) results + cross-configuration digests",
         "exploration", "Exhaustive depth-1 over a typed Integer/Float pool, a dense sweep of the rounding functions and random typed trees against a reference doing Integer steps in i128 and Float steps in IEEE doubles; a panic is a violation; both build configurations compared.",
         "variant is left free wherever the statement leaves it free", "§5 C09"),
 "C10": ("reference-model monitor: every (evaluator, spelling) x dense argument grid vs libm/tgamma/exact/identity oracles with coverage floors",
         "exploration", "The finite vocabulary is enumerated completely; each name is applied to arguments from a domain-aware mixture (edges, ulps, large, negative), injected as literals and via @, and judged with the statement's tolerances; a run that leaves any name under its hit floor is inconclusive.",
         "host libm and tgamma; conditioning guard removes ill-conditioned points; ilog unspecified", "§5 C10"),
 "C11": ("multiset oracle + permutation metamorphic monitor",
         "exploration", "All short argument lists over a small pool, random lists up to 8 over boundary pools, all permutations of lists up to 5, empty lists and failing arguments in every position, for every aggregate of the four evaluators.",
         "oracle computed from the multiset; running-sum overflow unspecified", "§5 C11"),
 "C12": ("metamorphic monitor: implicit vs explicit `(A*(R))` rendering + recogniser for forbidden juxtapositions",
         "exploration", "Random trees and an exhaustive left x right x suffix x context family are rendered with implicit products and with one/all products made explicit; outcomes must be identical; forbidden juxtapositions must be Err.",
         "the reference parser decides what R is", "§5 C12"),
 "C13": ("metamorphic monitor over the rewrite catalogue (whitespace, aliases, bracket/function/superscript/plus/paren rewrites)",
         "exploration", "Well-formed and malformed inputs are compared with their rewritten spellings (all 25 White_Space characters, every alias, every structural rewrite of the statement at a random applicable site); outcome class and Ok bits must match.",
         "no oracle; structural rewrites applied only where the reference grammar confirms the rewritten text is a sentence", "§5 C13"),
 "C14": ("metamorphic literal-substitution monitor + bound-placeholder reference",
         "exploration", "`@` alone over the hostile placeholder pool must return the caller's bits; expressions with several `@` must equal the same expression with `@` replaced by a literal spelling of the value, or the reference with `@` bound when no spelling exists.",
         "literal spellings are exact by construction (checked by C19)", "§5 C14"),
 "C15": ("differential monitor: one rendering evaluated by two evaluators inside the restricted shared domain",
         "exploration", "i64 vs number on integer trees, f64 vs number on the shared grammar, complex vs f64 on real operands, decimal vs f64 on positive well-conditioned trees; the reference only decides the restriction.",
         "restriction decided by a plain double evaluation and the i64 reference", "§5 C15"),
 "C16": ("offline history comparator (sequential / permuted / 16-thread / fresh-process observations keyed by call) + Miri many-seeds and ThreadSanitizer tripwires",
         "exploration", "Each worker records the outcome of every distinct call in a stateful-looking history and compares every later observation of the same call - in a shuffled order, on 16 concurrent threads with yield injection at the counted steps, and as the first call of a fresh process; Miri (8 seeds quick, 32 thorough) and TSan (thorough) watch a multi-threaded replay for data races and UB.",
         "state keyed on something the histories never vary is out of reach; sanitizers only see what the replay executes", "§5 C16"),
 "C17": ("cross-configuration log comparison over all 31 real feature-subset builds + compile probes for the export set",
         "exploration", "Every non-empty feature subset is built for real through a forwarding probe crate; selected evaluators must resolve, an unselected one must not; a corpus is run in every configuration and each outcome compared with the all-features build. Exhaustive in the configuration dimension, sampled in the input dimension.",
         "cargo/rustc verdicts are the observed events for the build and export sub-claims", "§5 C17"),
 "C18": ("reference-model monitor: bit-level decode of the double",
         "exploration", "Number::from on the complete structured boundary set (every power of two +-2 ulp, 2^63 neighbourhood, zeros, subnormals, NaNs, infinities) and millions of random bit patterns biased to the deciding exponent range; expected variant and payload computed with integer arithmetic.",
         "exhaustive on the structured set only", "§5 C18"),
 "C19": ("reference-model monitor: big-integer correct-rounding check + print/re-read metamorphic monitor",
         "exploration", "All short literals, long digit runs with every point position and halfway cases are checked to denote the correctly rounded double / exact integer / exact decimal; printed results of pool values, random bit patterns and small expressions are read back.",
         "rounding decided with big integers, independent of str::parse", "§5 C19"),
 "C20": ("metamorphic monitor: E, C[(E)] and C[@:=value] through the public API",
         "exploration", "Random (context, subexpression) pairs whose trees differ only at the hole; the context evaluated with the bracketed subexpression and with its value as placeholder must agree bit for bit.",
         "no oracle; pairs where the hole changes implicit-product eligibility are excluded as the statement says", "§5 C20"),
}
FUZZ = ["C01","C02","C03","C04","C05","C06","C07","C08","C09","C10","C12","C13","C14","C18","C20"]
PENDING_REASON = "check not built yet in this round (planned: DESIGN.md §5)"
props=[json.loads(l)["id"] for l in open("/verif/properties.jsonl")]
hooks_commit = subprocess.run(["git","-C","/repo","log","--format=%H","--grep=verif hooks"],capture_output=True,text=True).stdout.split()
m = {
 "version": 1,
 "setup_cmd": "./check setup",
 "hooks": {
   "guard": "verif_hooks",
   "enable": "cargo feature: the harness depends on string_calculator by path with features=[\"verif_hooks\"]",
   "baseline_off_cmd": "cd /repo && cargo test --workspace --no-fail-fast --offline",
   "source_commits": hooks_commit,
   "add_only": True
 },
 "engines": [
   {"name":"scv","path":"harness/","serves_properties":sorted(CLAIMED),"kind_free_text":"Rust harness: recording boundary around the public API, reference-model / metamorphic / invariant-hook monitors, worker processes with abort and hang pinning"},
   {"name":"stages","path":"stages.py","serves_properties":sorted(set(["C01","C02","C16","C17"]+FUZZ)),"kind_free_text":"side stages: Miri, AddressSanitizer, ThreadSanitizer, valgrind memcheck over the scv_san workload; cachegrind instruction counts (C02); 31 feature-subset builds of harness/probes (C17); driver of the coverage-guided stage"},
   {"name":"omni","path":"harness/fuzz/","serves_properties":FUZZ,"kind_free_text":"libFuzzer target (cargo-fuzz, offline): coverage-guided input generation feeding each property's ordinary monitor in the thorough tier; candidates are re-judged by the regular checked and release binaries before they count"}
 ],
 "checks": [],
 "not_applicable": [],
 "notes": "Family: runtime monitoring and sanitizers. Exit 0 = held on everything explored, 1 = VIOLATION line, 3 = inconclusive (never on a healthy tree). known_findings.json lists recorded findings and fixed defects."
}
for p in props:
    if p in CLAIMED:
        tech, cat, text, note, ref = CLAIMED[p]
        if p in FUZZ:
            text += " The thorough tier adds a coverage-guided workload (libFuzzer choosing inputs under coverage feedback from the library and the reference parser) judged by the same monitor."
            tech += " + coverage-guided workload (libFuzzer) in the thorough tier"
        m["checks"].append({
          "property_id": p,
          "quick_cmd": f"./check {p} --tier quick",
          "thorough_cmd": f"./check {p} --tier thorough",
          "evidence_file": f"/verif/evidence/{p}.json",
          "replay_cmd_template": "./check replay {path}",
          "engine": "scv",
          "level_claimed": {"category": cat, "text": text, "design_ref": ref},
          "level_note": note,
          "technique": tech,
        })
    else:
        m["not_applicable"].append({"property_id": p, "reason": PENDING_REASON})
json.dump(m, open("/verif/MANIFEST.json","w"), indent=1, ensure_ascii=False)
print("claimed", len(m["checks"]), "pending", len(m["not_applicable"]))
