#!/bin/bash
# Silence sweep on the unchanged tree: every check at several seeds; prints only what is not silent.
#   sweep.sh <tier> <seed> [<seed> ...]        (C16/C17 included only with SWEEP_ALL=1)
tier="$1"; shift
ids="C01 C02 C03 C04 C05 C06 C07 C08 C09 C10 C11 C12 C13 C14 C15 C18 C19 C20"
[ "${SWEEP_ALL:-0}" = 1 ] && ids="$ids C16 C17"
cd "$(dirname "$0")"
for seed in "$@"; do
  for p in $ids; do
    out=$(VERIF_SEED=$seed ./check $p --tier $tier 2>&1); rc=$?
    if [ $rc -ne 0 ]; then echo "seed=$seed $p rc=$rc :: $(echo "$out" | grep -E "^(VIOLATION|INCONCLUSIVE)" | head -3 | cut -c1-600)"; fi
  done
  echo "seed $seed done"
done
