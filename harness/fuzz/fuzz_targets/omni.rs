#![no_main]
//! Coverage-guided workload: libFuzzer chooses the bytes, `scv::omni` turns them into the cases of
//! the property named in SCV_FUZZ_PROP and the property's ordinary monitor judges them. Violating
//! cases are appended to $SCV_FUZZ_OUT/cand-<pid>.jsonl (at most a few per signature) and the process
//! carries on; running totals go to $SCV_FUZZ_OUT/stats-<pid>.json. Nothing here is a verdict: the
//! stage re-judges every candidate with the regular binaries.
use libfuzzer_sys::fuzz_target;
use scv::core::Stats;
use scv::json::J;
use scv::omni;
use std::cell::RefCell;
use std::collections::HashMap;
use std::io::Write;

struct State {
    prop: String,
    out: String,
    st: Stats,
    execs: u64,
    decoded: u64,
    tally: [u64; 3],
    per_sig: HashMap<String, u32>,
}

thread_local! {
    static STATE: RefCell<Option<State>> = RefCell::new(None);
}

fn flush(s: &State) {
    let j = J::obj()
        .set("execs", J::Int(s.execs as i64))
        .set("decoded", J::Int(s.decoded as i64))
        .set("pass", J::Int(s.tally[0] as i64))
        .set("skip", J::Int(s.tally[1] as i64))
        .set("viol", J::Int(s.tally[2] as i64))
        .set("calls", J::Int(scv::sut::CALLS.load(std::sync::atomic::Ordering::Relaxed) as i64));
    let _ = std::fs::write(format!("{}/stats-{}.json", s.out, std::process::id()), j.to_string());
}

fuzz_target!(|data: &[u8]| {
    STATE.with(|cell| {
        let mut b = cell.borrow_mut();
        if b.is_none() {
            scv::sut::install_hook();
            let prop = std::env::var("SCV_FUZZ_PROP").unwrap_or_else(|_| "C01".into());
            let out = std::env::var("SCV_FUZZ_OUT").unwrap_or_else(|_| ".".into());
            *b = Some(State { prop, out, st: Stats::default(), execs: 0, decoded: 0, tally: [0; 3], per_sig: HashMap::new() });
        }
        let s = b.as_mut().unwrap();
        s.execs += 1;
        if let Some(inp) = omni::decode(data) {
            s.decoded += 1;
            let prop = s.prop.clone();
            let bad = omni::judge(&prop, &inp, &mut s.st, &mut s.tally);
            for (case, v) in bad {
                let n = s.per_sig.entry(v.sig.clone()).or_insert(0);
                *n += 1;
                if *n <= 3 {
                    let line = J::obj().set("property", J::s(&prop)).set("sig", J::s(&v.sig)).set("class", J::s(&v.class)).set("case", case.to_json()).to_string();
                    if let Ok(mut f) = std::fs::OpenOptions::new().create(true).append(true).open(format!("{}/cand-{}.jsonl", s.out, std::process::id())) {
                        let _ = writeln!(f, "{}", line);
                    }
                }
            }
        }
        if s.execs % 2000 == 0 || s.execs < 3 {
            flush(s);
        }
    });
});
