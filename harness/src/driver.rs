//! Driver: spawns worker processes per (configuration, shard), merges their observations, pins aborts
//! and hangs on inputs, compares configurations, applies known findings, writes evidence.

use crate::core::{Case, Ctx, Stats, Tier, Verdict};
use crate::json::J;
use crate::monitors::{self, Monitor};
use crate::prng::fnv;
use std::collections::{BTreeMap, BTreeSet, HashSet};
use std::io::{Read, Write};
use std::process::{Command, Stdio};
use std::sync::atomic::{AtomicU64, Ordering};
use std::sync::Mutex;
use std::time::Instant;

pub fn root() -> String {
    std::env::var("VERIF_ROOT").unwrap_or_else(|_| "/verif".to_string())
}

fn bin_for(config: &str) -> String {
    let dir = if config == "release" { "release" } else { "debug" };
    format!("{}/.build/main/{}/scv", root(), dir)
}

pub const NSHARDS: u64 = 16;
pub const WORK_STACK: usize = 8 * 1024 * 1024 + 256 * 1024;
const HANG_CPU_SECONDS: f64 = 60.0;

// ---------------------------------------------------------------- worker side

static WATCH_IDX: AtomicU64 = AtomicU64::new(0);
static WATCH_CASE: Mutex<Option<Case>> = Mutex::new(None);

/// Called by monitors' check path (through `Ctx::check`'s trace hook) — see `worker_main`.
pub fn watch(case: &Case) {
    if let Ok(mut g) = WATCH_CASE.lock() {
        *g = Some(case.clone());
    }
    WATCH_IDX.fetch_add(1, Ordering::Relaxed);
}

/// Progress mark for monitors that make many library calls inside one case (C16's histories run on
/// up to 16 threads): the CPU-time watchdog measures the time since the last mark, so that it bounds
/// one call and not a whole phase.
pub fn progress() {
    WATCH_IDX.fetch_add(1, Ordering::Relaxed);
}

fn proc_cpu_seconds() -> f64 {
    let s = std::fs::read_to_string("/proc/self/stat").unwrap_or_default();
    // fields after the closing paren of comm
    let rest = s.rsplit_once(')').map(|x| x.1).unwrap_or("");
    let f: Vec<&str> = rest.split_whitespace().collect();
    // utime = field 14, stime = field 15 (1-based); after ')' the first is field 3
    let ut: f64 = f.get(11).and_then(|x| x.parse().ok()).unwrap_or(0.0);
    let st: f64 = f.get(12).and_then(|x| x.parse().ok()).unwrap_or(0.0);
    (ut + st) / 100.0
}

fn start_watchdog() {
    std::thread::spawn(|| {
        let mut last_idx = u64::MAX;
        let mut cpu_at_change = proc_cpu_seconds();
        loop {
            std::thread::sleep(std::time::Duration::from_millis(250));
            let idx = WATCH_IDX.load(Ordering::Relaxed);
            let cpu = proc_cpu_seconds();
            if idx != last_idx {
                last_idx = idx;
                cpu_at_change = cpu;
            } else if cpu - cpu_at_change > HANG_CPU_SECONDS {
                let c = WATCH_CASE.lock().ok().and_then(|g| g.clone());
                if let Some(c) = c {
                    println!("HANG {}", c.to_json().to_string());
                }
                let _ = std::io::stdout().flush();
                std::process::exit(97);
            }
        }
    });
}

fn arg<'a>(args: &'a [String], name: &str) -> Option<&'a str> {
    args.iter().position(|a| a == name).and_then(|i| args.get(i + 1)).map(|s| s.as_str())
}

fn parse_tier(s: Option<&str>) -> Tier {
    match s {
        Some("thorough") => Tier::Thorough,
        _ => Tier::Quick,
    }
}

pub fn worker_main(args: &[String]) -> i32 {
    let prop = arg(args, "--prop").expect("--prop").to_string();
    let mon = match monitors::find(&prop) {
        Some(m) => m,
        None => {
            eprintln!("unknown property {}", prop);
            return 2;
        }
    };
    let tier = parse_tier(arg(args, "--tier"));
    let seed: u64 = arg(args, "--seed").and_then(|s| s.parse().ok()).unwrap_or(1);
    let shard: u64 = arg(args, "--shard").and_then(|s| s.parse().ok()).unwrap_or(0);
    let nshards: u64 = arg(args, "--nshards").and_then(|s| s.parse().ok()).unwrap_or(1);
    let config = arg(args, "--config").unwrap_or("checked").to_string();
    let trace = arg(args, "--trace").map(|s| s.to_string());
    let hashes = arg(args, "--hashes").map(|s| s.to_string());
    let only_block: Option<u64> = arg(args, "--only-block").and_then(|s| s.parse().ok());
    let solo = arg(args, "--solo").is_some();
    let (shard, nshards) = if solo { (0, 1) } else { (shard, nshards) };
    crate::sut::install_hook();
    start_watchdog();
    let h = std::thread::Builder::new()
        .stack_size(WORK_STACK)
        .spawn(move || {
            let mut ctx = Ctx::new(&prop, tier, seed, shard, nshards, &config);
            ctx.solo = solo;
            ctx.stats.digest_block = mon.digest_block();
            if let Some(b) = only_block {
                ctx.stats.dump_block = Some(b);
                ctx.only_block = Some((b, mon.digest_block()));
            }
            if let Some(t) = trace {
                ctx.trace = std::fs::File::create(t).ok();
            }
            let t0 = Instant::now();
            mon.run(&mut ctx);
            let wall = t0.elapsed().as_secs_f64();
            if let Some(hf) = hashes {
                let mut v: Vec<u64> = ctx.stats.distinct.iter().copied().collect();
                v.sort();
                let mut bytes = Vec::with_capacity(v.len() * 8);
                for x in v {
                    bytes.extend_from_slice(&x.to_le_bytes());
                }
                let _ = std::fs::write(hf, bytes);
            }
            let out = stats_json(&ctx.stats).set("wall_s", J::Num(wall)).set("calls", J::Int(crate::sut::CALLS.load(Ordering::Relaxed) as i64));
            println!("RESULT {}", out.to_string());
        })
        .expect("spawn work thread");
    match h.join() {
        Ok(()) => 0,
        Err(_) => {
            eprintln!("harness worker thread panicked");
            3
        }
    }
}

fn stats_json(s: &Stats) -> J {
    let mut counters = J::obj();
    for (k, v) in &s.counters {
        counters.put(k, J::Int(*v as i64));
    }
    let mut maxes = J::obj();
    for (k, v) in &s.maxes {
        maxes.put(k, J::Num(*v));
    }
    let mut sets = J::obj();
    for (k, v) in &s.sets {
        sets.put(k, J::strs(v.iter().cloned()));
    }
    let mut dig = J::obj();
    for (k, v) in &s.digests {
        dig.put(&k.to_string(), J::s(&format!("{:016x}", v)));
    }
    J::obj()
        .set("counters", counters)
        .set("maxes", maxes)
        .set("sets", sets)
        .set("samples", J::Arr(s.samples.clone()))
        .set("violations", J::Arr(s.violations.clone()))
        .set("digests", dig)
}

// ---------------------------------------------------------------- driver side

struct WorkerOut {
    config: String,
    shard: u64,
    status: Option<i32>,
    signal: Option<i32>,
    stdout: String,
    stderr: String,
}

fn spawn_worker(prop: &str, tier: Tier, seed: u64, config: &str, shard: u64, extra: &[String]) -> std::io::Result<std::process::Child> {
    let mut c = Command::new(bin_for(config));
    c.arg("worker")
        .args(["--prop", prop, "--tier", tier.name(), "--seed", &seed.to_string(), "--shard", &shard.to_string(), "--nshards", &NSHARDS.to_string(), "--config", config])
        .args(extra)
        .stdout(Stdio::piped())
        .stderr(Stdio::piped());
    c.spawn()
}

fn collect(mut child: std::process::Child, config: &str, shard: u64) -> WorkerOut {
    let mut so = child.stdout.take().unwrap();
    let mut se = child.stderr.take().unwrap();
    let t = std::thread::spawn(move || {
        let mut s = String::new();
        let _ = se.read_to_string(&mut s);
        s
    });
    let mut stdout = String::new();
    let _ = so.read_to_string(&mut stdout);
    let stderr = t.join().unwrap_or_default();
    let st = child.wait().ok();
    let (status, signal) = match st {
        Some(s) => {
            use std::os::unix::process::ExitStatusExt;
            (s.code(), s.signal())
        }
        None => (None, None),
    };
    WorkerOut { config: config.to_string(), shard, status, signal, stdout, stderr }
}

fn tmp_dir() -> String {
    let d = format!("{}/.build/tmp", root());
    let _ = std::fs::create_dir_all(&d);
    d
}

pub struct Finding {
    pub property: String,
    pub sig: String,
    pub description: String,
}

pub fn load_known() -> Vec<Finding> {
    let p = format!("{}/known_findings.json", root());
    let s = match std::fs::read_to_string(&p) {
        Ok(s) => s,
        Err(_) => return vec![],
    };
    let j = match J::parse(&s) {
        Ok(j) => j,
        Err(e) => {
            eprintln!("known_findings.json does not parse: {}", e);
            return vec![];
        }
    };
    j.arr("findings")
        .iter()
        .filter_map(|f| Some(Finding { property: f.str("property")?.to_string(), sig: f.str("sig")?.to_string(), description: f.str("description").unwrap_or("").to_string() }))
        .collect()
}

#[derive(Default)]
pub struct Merged {
    pub counters: BTreeMap<String, u64>,
    pub maxes: BTreeMap<String, f64>,
    pub sets: BTreeMap<String, BTreeSet<String>>,
    pub samples: Vec<J>,
    pub violations: Vec<J>,
    pub inconclusive: Vec<String>,
    pub by_config: BTreeMap<String, u64>,
    pub digests: BTreeMap<String, BTreeMap<(u64, u64), String>>,
}

fn merge_result(m: &mut Merged, config: &str, shard: u64, r: &J) {
    if let Some(J::Obj(kv)) = r.get("counters") {
        for (k, v) in kv {
            if let J::Int(n) = v {
                *m.counters.entry(k.clone()).or_insert(0) += *n as u64;
                if k == "evaluations" {
                    *m.by_config.entry(config.to_string()).or_insert(0) += *n as u64;
                }
            }
        }
    }
    if let Some(J::Obj(kv)) = r.get("maxes") {
        for (k, v) in kv {
            let f = match v {
                J::Num(f) => *f,
                J::Int(i) => *i as f64,
                _ => continue,
            };
            let e = m.maxes.entry(k.clone()).or_insert(f64::NEG_INFINITY);
            if f > *e {
                *e = f;
            }
        }
    }
    if let Some(J::Obj(kv)) = r.get("sets") {
        for (k, v) in kv {
            if let J::Arr(a) = v {
                let e = m.sets.entry(k.clone()).or_default();
                for x in a {
                    if let Some(s) = x.as_str() {
                        e.insert(s.to_string());
                    }
                }
            }
        }
    }
    for s in r.arr("samples") {
        if m.samples.len() < 12 {
            m.samples.push(s.clone());
        }
    }
    for v in r.arr("violations") {
        m.violations.push(v.clone());
    }
    if let Some(J::Obj(kv)) = r.get("digests") {
        let e = m.digests.entry(config.to_string()).or_default();
        for (k, v) in kv {
            if let (Ok(b), Some(d)) = (k.parse::<u64>(), v.as_str()) {
                e.insert((shard, b), d.to_string());
            }
        }
    }
}

fn count_distinct(files: &[String]) -> u64 {
    let mut all: HashSet<u64> = HashSet::new();
    for f in files {
        if let Ok(b) = std::fs::read(f) {
            for ch in b.chunks_exact(8) {
                all.insert(u64::from_le_bytes(ch.try_into().unwrap()));
            }
        }
        let _ = std::fs::remove_file(f);
    }
    all.len() as u64
}

fn last_line(path: &str) -> Option<String> {
    let s = std::fs::read_to_string(path).ok()?;
    s.lines().last().map(|l| l.to_string())
}

pub fn seed_from_env() -> u64 {
    std::env::var("VERIF_SEED").ok().and_then(|s| s.parse::<i64>().ok()).map(|x| x as u64).unwrap_or(1)
}

/// Run all workers of one monitor and merge. Extra stages (sanitizers etc.) add to `extra_coverage`.
pub fn run_monitor(mon: &dyn Monitor, tier: Tier, seed: u64) -> Merged {
    let prop = mon.id();
    let configs = mon.configs(tier);
    let tmp = tmp_dir();
    let mut merged = Merged::default();
    let mut hash_files = vec![];
    let mut children = vec![];
    for cfg in &configs {
        for shard in 0..NSHARDS {
            let hf = format!("{}/{}-{}-{}-{}.hashes", tmp, prop, cfg, shard, std::process::id());
            hash_files.push(hf.clone());
            match spawn_worker(prop, tier, seed, cfg, shard, &["--hashes".to_string(), hf]) {
                Ok(ch) => children.push((cfg.to_string(), shard, ch)),
                Err(e) => merged.inconclusive.push(format!("cannot start worker {} ({}): {}", bin_for(cfg), cfg, e)),
            }
        }
    }
    let handles: Vec<_> = children.into_iter().map(|(cfg, shard, ch)| std::thread::spawn(move || collect(ch, &cfg, shard))).collect();
    let mut outs: Vec<WorkerOut> = handles.into_iter().filter_map(|h| h.join().ok()).collect();
    // solo phase: one more worker per configuration, run after the others and one at a time, for
    // sub-checks that need the machine's cores for themselves (races between the threads of a fresh
    // process do not show when 16 busy workers make every such process run almost serially)
    if mon.solo_phase() {
        for cfg in &configs {
            let hf = format!("{}/{}-{}-solo-{}.hashes", tmp, prop, cfg, std::process::id());
            hash_files.push(hf.clone());
            match spawn_worker(prop, tier, seed, cfg, NSHARDS, &["--hashes".to_string(), hf, "--solo".to_string(), "1".to_string()]) {
                Ok(ch) => outs.push(collect(ch, cfg, NSHARDS)),
                Err(e) => merged.inconclusive.push(format!("cannot start solo worker ({}): {}", cfg, e)),
            }
        }
    }
    for o in outs {
        let mut got_result = false;
        for line in o.stdout.lines() {
            if let Some(r) = line.strip_prefix("RESULT ") {
                match J::parse(r) {
                    Ok(j) => {
                        merge_result(&mut merged, &o.config, o.shard, &j);
                        got_result = true;
                    }
                    Err(e) => merged.inconclusive.push(format!("worker {}#{} result does not parse: {}", o.config, o.shard, e)),
                }
            } else if let Some(h) = line.strip_prefix("HANG ") {
                let case = J::parse(h).unwrap_or(J::Null);
                if prop == "C02" {
                    let ev = case.str("evaluator").unwrap_or("?").to_string();
                    let construct = case.arr("exprs").first().and_then(|e| e.as_str()).map(crate::monitors::c02::construct_of).unwrap_or_default();
                    merged.violations.push(
                        J::obj()
                            .set("property", J::s(prop))
                            .set("config", J::s(&o.config))
                            .set("class", J::s("cpu-timeout"))
                            .set("sig", J::s(&format!("C02|{}|cpu-timeout|{}", ev, construct)))
                            .set("detail", J::s(&format!("one call consumed more than {} CPU-seconds", HANG_CPU_SECONDS)))
                            .set("seed", J::Int(seed as i64))
                            .set("case", case),
                    );
                } else {
                    merged.inconclusive.push(format!("a call did not return within {} CPU-seconds (termination is C02's): {}", HANG_CPU_SECONDS, h));
                }
                got_result = true; // accounted for
            }
        }
        if !got_result {
            // abnormal death: pin it on the input by re-running the shard in trace mode
            let tf = format!("{}/{}-{}-{}-{}.trace", tmp, prop, o.config, o.shard, std::process::id());
            let what = format!("exit={:?} signal={:?}", o.status, o.signal);
            let mut targs = vec!["--trace".to_string(), tf.clone()];
            if o.shard == NSHARDS {
                targs.extend(["--solo".to_string(), "1".to_string()]);
            }
            let pinned = spawn_worker(prop, tier, seed, &o.config, o.shard, &targs).ok().map(|ch| collect(ch, &o.config, o.shard));
            let again_dead = pinned.as_ref().map(|p| !p.stdout.contains("RESULT ")).unwrap_or(false);
            let case = last_line(&tf).and_then(|l| J::parse(&l).ok());
            let _ = std::fs::remove_file(&tf);
            match (again_dead, case) {
                (true, Some(case)) if prop == "C01" => {
                    let ev = case.str("evaluator").unwrap_or("?").to_string();
                    let stderr_tail: String = o.stderr.lines().rev().take(3).collect::<Vec<_>>().join(" / ");
                    let kind = if o.stderr.contains("overflowed its stack") { "stack-overflow" } else { "abort" };
                    merged.violations.push(
                        J::obj()
                            .set("property", J::s(prop))
                            .set("config", J::s(&o.config))
                            .set("class", J::s("abort"))
                            .set("sig", J::s(&format!("C01|{}|abort|{}", ev, kind)))
                            .set("detail", J::s(&format!("the process died ({}) inside this call: {}", what, stderr_tail)))
                            .set("seed", J::Int(seed as i64))
                            .set("case", case),
                    );
                }
                (true, Some(case)) => merged.inconclusive.push(format!("worker died ({}) inside a call (aborts are C01's): {}", what, case.to_string())),
                _ => merged.inconclusive.push(format!("worker {}#{} died ({}) and the death did not reproduce in trace mode; stderr: {}", o.config, o.shard, what, o.stderr.lines().last().unwrap_or(""))),
            }
        }
    }
    if !configs.is_empty() {
        merged.counters.insert("distinct_nontrivial".into(), count_distinct(&hash_files));
    }
    // cross-configuration digest comparison
    if mon.digest_block() > 0 && configs.len() >= 2 {
        let a = merged.digests.get(configs[0]).cloned().unwrap_or_default();
        let b = merged.digests.get(configs[1]).cloned().unwrap_or_default();
        let mut blocks_compared = 0u64;
        let mut mism = vec![];
        for (k, v) in &a {
            if let Some(w) = b.get(k) {
                blocks_compared += 1;
                if v != w {
                    mism.push(*k);
                }
            }
        }
        merged.counters.insert("config_blocks_compared".into(), blocks_compared);
        merged.counters.insert("config_blocks_differing".into(), mism.len() as u64);
        for (shard, block) in mism.into_iter().take(8) {
            let dump = |cfg: &str| -> BTreeMap<u64, (String, String)> {
                let mut m = BTreeMap::new();
                if let Ok(ch) = spawn_worker(prop, tier, seed, cfg, shard, &["--only-block".to_string(), block.to_string()]) {
                    let o = collect(ch, cfg, shard);
                    for l in o.stdout.lines() {
                        if let Some(r) = l.strip_prefix("DUMP\t") {
                            let p: Vec<&str> = r.splitn(3, '\t').collect();
                            if p.len() == 3 {
                                if let Ok(i) = p[0].parse::<u64>() {
                                    m.insert(i, (p[1].to_string(), p[2].to_string()));
                                }
                            }
                        }
                    }
                }
                m
            };
            let (da, db) = (dump(configs[0]), dump(configs[1]));
            let mut found = false;
            for (i, (case, img)) in &da {
                if let Some((_, img2)) = db.get(i) {
                    if img != img2 {
                        found = true;
                        let cj = J::parse(case).unwrap_or(J::Null);
                        let ev = cj.str("evaluator").unwrap_or("?").to_string();
                        merged.violations.push(
                            J::obj()
                                .set("property", J::s(prop))
                                .set("config", J::s("checked+release"))
                                .set("class", J::s("config-divergence"))
                                .set("sig", J::s(&format!("{}|{}|config-divergence|{}->{}", prop, ev, img.split(' ').next().unwrap_or(""), img2.split(' ').next().unwrap_or(""))))
                                .set("detail", J::s(&format!("{}: {} ; {}: {}", configs[0], img, configs[1], img2)))
                                .set("seed", J::Int(seed as i64))
                                .set("case", cj),
                        );
                    }
                }
            }
            if !found {
                merged.inconclusive.push(format!("digest of shard {} block {} differs between configurations but no differing case was isolated", shard, block));
            }
        }
    }
    merged
}

pub struct Report {
    pub unknown: usize,
    pub known: usize,
    pub inconclusive: usize,
}

/// Print KNOWN-FINDING / VIOLATION / INCONCLUSIVE lines, write replay files and the evidence file.
pub fn conclude(mon: &dyn Monitor, tier: Tier, seed: u64, merged: &mut Merged, extra_coverage: J, wall: f64) -> Report {
    let prop = mon.id();
    let known = load_known();
    let mut seen: BTreeSet<String> = BTreeSet::new();
    let mut known_hit: BTreeSet<String> = BTreeSet::new();
    let mut unknown = 0usize;
    let replay_dir = format!("{}/replays", root());
    let _ = std::fs::create_dir_all(&replay_dir);
    // floors
    for (name, min) in mon.floors(tier) {
        let have = if let Some(set) = name.strip_prefix("set:") { merged.sets.get(set).map(|s| s.len() as u64).unwrap_or(0) } else { *merged.counters.get(&name).unwrap_or(&0) };
        if have < min {
            merged.inconclusive.push(format!("coverage floor not reached: {} = {} < {}", name, have, min));
        }
    }
    let viols = merged.violations.clone();
    for v in &viols {
        let sig = v.str("sig").unwrap_or("").to_string();
        if !seen.insert(sig.clone()) {
            continue;
        }
        if let Some(f) = known.iter().find(|f| f.property == prop && f.sig == sig) {
            if known_hit.insert(sig.clone()) {
                println!("KNOWN-FINDING: property={} {} [{}]", prop, f.description, sig);
            }
            continue;
        }
        unknown += 1;
        if unknown <= 40 {
            let path = format!("{}/{}-{:016x}.json", replay_dir, prop, fnv(sig.as_bytes()));
            let _ = std::fs::write(&path, v.pretty());
            let case_brief = v.get("case").and_then(Case::from_json).map(|c| c.brief()).unwrap_or_default();
            println!("VIOLATION property={} replay={} class={} sig={} :: {} :: {}", prop, path, v.str("class").unwrap_or(""), sig, case_brief, v.str("detail").unwrap_or(""));
        }
    }
    if unknown > 40 {
        println!("({} further distinct violation signatures not listed)", unknown - 40);
    }
    for i in &merged.inconclusive {
        println!("INCONCLUSIVE property={} reason={}", prop, i);
    }
    // evidence
    let evals = *merged.counters.get("evaluations").unwrap_or(&0);
    let distinct = *merged.counters.get("distinct_nontrivial").unwrap_or(&0);
    let mut cov = J::obj()
        .set("evaluations", J::Int(evals as i64))
        .set("distinct_nontrivial", J::Int(distinct as i64))
        .set("rule", J::s(mon.rule()))
        .set("samples", J::Arr(if merged.samples.is_empty() { vec![J::s("(no non-trivial case passed)")] } else { merged.samples.clone() }))
        .set("exhaustive", J::Bool(mon.exhaustive()));
    let mut counters = J::obj();
    for (k, v) in &merged.counters {
        counters.put(k, J::Int(*v as i64));
    }
    cov.put("counters", counters);
    let mut maxes = J::obj();
    for (k, v) in &merged.maxes {
        maxes.put(k, J::Num(*v));
    }
    cov.put("maxima", maxes);
    let mut sets = J::obj();
    for (k, v) in &merged.sets {
        let items: Vec<String> = v.iter().take(400).cloned().collect();
        sets.put(k, J::obj().set("size", J::Int(v.len() as i64)).set("items", J::strs(items)));
    }
    cov.put("coverage_sets", sets);
    let mut bc = J::obj();
    for (k, v) in &merged.by_config {
        bc.put(k, J::Int(*v as i64));
    }
    cov.put("evaluations_by_config", bc);
    cov.put("known_findings_hit", J::strs(known_hit.iter().cloned()));
    cov.put("unlisted_violation_signatures", J::Int(unknown as i64));
    cov.put("inconclusive", J::strs(merged.inconclusive.iter().cloned()));
    if let J::Obj(kv) = extra_coverage {
        for (k, v) in kv {
            cov.put(&k, v);
        }
    }
    let ev = J::obj()
        .set("property_id", J::s(prop))
        .set("tier", J::s(tier.name()))
        .set("seed", J::Int(seed as i64))
        .set("level", J::s("exploration"))
        .set("coverage", cov)
        .set("assumptions", J::strs(mon.assumptions().into_iter().map(|s| s.to_string())))
        .set("wall_s", J::Num((wall * 100.0).round() / 100.0))
        .set("violations", J::Int(viols.len() as i64));
    let ed = format!("{}/evidence", root());
    let _ = std::fs::create_dir_all(&ed);
    let _ = std::fs::write(format!("{}/{}.json", ed, prop), ev.pretty());
    Report { unknown, known: known_hit.len(), inconclusive: merged.inconclusive.len() }
}

pub fn check_main(args: &[String]) -> i32 {
    let prop = match args.first() {
        Some(p) => p.clone(),
        None => {
            eprintln!("usage: scv check <ID> [--tier quick|thorough] [--extra <json file>]");
            return 2;
        }
    };
    let mon = match monitors::find(&prop) {
        Some(m) => m,
        None => {
            eprintln!("unknown property {}", prop);
            return 2;
        }
    };
    let tier = parse_tier(arg(args, "--tier").or(std::env::var("VERIF_TIER").ok().as_deref()));
    let seed = seed_from_env();
    let t0 = Instant::now();
    let mut merged = run_monitor(mon.as_ref(), tier, seed);
    // results of side stages (sanitizers, feature builds) handed over by the check script
    let mut extra = J::obj();
    if let Some(p) = arg(args, "--extra") {
        if let Ok(s) = std::fs::read_to_string(p) {
            match J::parse(&s) {
                Ok(j) => {
                    for v in j.arr("violations") {
                        merged.violations.push(v.clone());
                    }
                    for i in j.arr("inconclusive") {
                        if let Some(s) = i.as_str() {
                            merged.inconclusive.push(s.to_string());
                        }
                    }
                    if let Some(c) = j.get("coverage") {
                        extra = c.clone();
                        // a stage may contribute measured counters and samples of its own
                        if let Some(J::Obj(kv)) = c.get("counters") {
                            for (k, v) in kv {
                                if let J::Int(n) = v {
                                    *merged.counters.entry(k.clone()).or_insert(0) += *n as u64;
                                }
                            }
                        }
                        for s in c.arr("samples") {
                            merged.samples.push(s.clone());
                        }
                    }
                }
                Err(e) => merged.inconclusive.push(format!("side-stage summary {} does not parse: {}", p, e)),
            }
        } else {
            merged.inconclusive.push(format!("side-stage summary {} missing", p));
        }
    }
    let wall = t0.elapsed().as_secs_f64() + extra.num("stage_wall_s").unwrap_or(0.0);
    let rep = conclude(mon.as_ref(), tier, seed, &mut merged, extra, wall);
    let evals = *merged.counters.get("evaluations").unwrap_or(&0);
    println!(
        "{} {} seed={} evaluations={} distinct_nontrivial={} violations(unlisted)={} known_findings_hit={} inconclusive={} wall={:.1}s",
        mon.id(),
        tier.name(),
        seed,
        evals,
        merged.counters.get("distinct_nontrivial").unwrap_or(&0),
        rep.unknown,
        rep.known,
        rep.inconclusive,
        wall
    );
    if rep.unknown > 0 {
        1
    } else if rep.inconclusive > 0 {
        3
    } else {
        0
    }
}

pub fn replay_main(args: &[String]) -> i32 {
    let path = match args.first() {
        Some(p) => p,
        None => {
            eprintln!("usage: scv replay <path>");
            return 2;
        }
    };
    let j = match std::fs::read_to_string(path).map_err(|e| e.to_string()).and_then(|s| J::parse(&s)) {
        Ok(j) => j,
        Err(e) => {
            eprintln!("cannot read replay {}: {}", path, e);
            return 2;
        }
    };
    let prop = j.str("property").unwrap_or("").to_string();
    let config = j.str("config").unwrap_or("checked").to_string();
    // dispatch to the binary of the recorded configuration
    let want = if config == "release" { "release" } else { "checked" };
    let me = if cfg!(debug_assertions) { "checked" } else { "release" };
    if want != me && arg(args, "--no-dispatch").is_none() {
        let st = Command::new(bin_for(want)).arg("replay").arg(path).arg("--no-dispatch").arg("1").status();
        return st.ok().and_then(|s| s.code()).unwrap_or(2);
    }
    let mon = match monitors::find(&prop) {
        Some(m) => m,
        None => {
            eprintln!("unknown property {}", prop);
            return 2;
        }
    };
    let case = match j.get("case").and_then(Case::from_json) {
        Some(c) => c,
        None => {
            eprintln!("replay file has no case");
            return 2;
        }
    };
    crate::sut::install_hook();
    let h = std::thread::Builder::new().stack_size(WORK_STACK).spawn(move || {
        let mut st = Stats::default();
        let v = mon.judge(&case, &mut st);
        println!("case: {}", case.brief());
        match v {
            Verdict::Viol(v) => {
                println!("class={} sig={}\n{}", v.class, v.sig, v.detail);
                true
            }
            Verdict::Pass { .. } => {
                println!("no violation: the property holds on this case");
                false
            }
            Verdict::Skip(w) => {
                println!("no verdict on this case ({})", w);
                false
            }
        }
    });
    match h.map(|h| h.join()) {
        Ok(Ok(true)) => {
            println!("VIOLATION property={} replay={}", prop, path);
            1
        }
        Ok(Ok(false)) => 0,
        _ => {
            println!("VIOLATION property={} replay={} (the replayed call killed its thread)", prop, path);
            1
        }
    }
}
