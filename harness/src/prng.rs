//! xoshiro256** PRNG with splitmix64 seeding. Written here so the lock file needs no new crate.

#[derive(Clone, Debug)]
pub struct Rng {
    s: [u64; 4],
}

pub fn splitmix(x: &mut u64) -> u64 {
    *x = x.wrapping_add(0x9E3779B97F4A7C15);
    let mut z = *x;
    z = (z ^ (z >> 30)).wrapping_mul(0xBF58476D1CE4E5B9);
    z = (z ^ (z >> 27)).wrapping_mul(0x94D049BB133111EB);
    z ^ (z >> 31)
}

/// FNV-1a over bytes, used for stable hashing of case texts and ids.
pub fn fnv(bytes: &[u8]) -> u64 {
    let mut h: u64 = 0xcbf29ce484222325;
    for b in bytes {
        h ^= *b as u64;
        h = h.wrapping_mul(0x100000001b3);
    }
    // final avalanche
    let mut x = h;
    splitmix(&mut x)
}

impl Rng {
    pub fn new(seed: u64) -> Rng {
        let mut x = seed;
        let s = [splitmix(&mut x), splitmix(&mut x), splitmix(&mut x), splitmix(&mut x)];
        Rng { s }
    }
    /// Independent stream for (seed, label, index).
    pub fn derive(seed: u64, label: &str, index: u64) -> Rng {
        let h = fnv(label.as_bytes());
        Rng::new(seed ^ h.rotate_left(17) ^ index.wrapping_mul(0xD6E8FEB86659FD93))
    }
    pub fn next(&mut self) -> u64 {
        let r = self.s[1].wrapping_mul(5).rotate_left(7).wrapping_mul(9);
        let t = self.s[1] << 17;
        self.s[2] ^= self.s[0];
        self.s[3] ^= self.s[1];
        self.s[1] ^= self.s[2];
        self.s[0] ^= self.s[3];
        self.s[2] ^= t;
        self.s[3] = self.s[3].rotate_left(45);
        r
    }
    /// Uniform in 0..n (n > 0).
    pub fn below(&mut self, n: usize) -> usize {
        ((self.next() >> 11) as u128 * n as u128 >> 53) as usize
    }
    pub fn range(&mut self, lo: i64, hi: i64) -> i64 {
        lo + self.below((hi - lo + 1) as usize) as i64
    }
    pub fn chance(&mut self, num: usize, den: usize) -> bool {
        self.below(den) < num
    }
    pub fn unit(&mut self) -> f64 {
        (self.next() >> 11) as f64 / (1u64 << 53) as f64
    }
    pub fn pick<'a, T>(&mut self, xs: &'a [T]) -> &'a T {
        &xs[self.below(xs.len())]
    }
    pub fn shuffle<T>(&mut self, xs: &mut [T]) {
        for i in (1..xs.len()).rev() {
            let j = self.below(i + 1);
            xs.swap(i, j);
        }
    }
}
