//! Minimal JSON value, writer and parser (evidence, replay files, known findings, worker protocol).

#[derive(Clone, Debug, PartialEq)]
pub enum J {
    Null,
    Bool(bool),
    Int(i64),
    Num(f64),
    Str(String),
    Arr(Vec<J>),
    Obj(Vec<(String, J)>),
}

impl J {
    pub fn obj() -> J {
        J::Obj(Vec::new())
    }
    pub fn set(mut self, k: &str, v: J) -> J {
        self.put(k, v);
        self
    }
    pub fn put(&mut self, k: &str, v: J) {
        if let J::Obj(kv) = self {
            for e in kv.iter_mut() {
                if e.0 == k {
                    e.1 = v;
                    return;
                }
            }
            kv.push((k.to_string(), v));
        }
    }
    pub fn get(&self, k: &str) -> Option<&J> {
        match self {
            J::Obj(kv) => kv.iter().find(|e| e.0 == k).map(|e| &e.1),
            _ => None,
        }
    }
    pub fn str(&self, k: &str) -> Option<&str> {
        match self.get(k) {
            Some(J::Str(s)) => Some(s.as_str()),
            _ => None,
        }
    }
    pub fn int(&self, k: &str) -> Option<i64> {
        match self.get(k) {
            Some(J::Int(i)) => Some(*i),
            Some(J::Num(f)) => Some(*f as i64),
            _ => None,
        }
    }
    pub fn num(&self, k: &str) -> Option<f64> {
        match self.get(k) {
            Some(J::Int(i)) => Some(*i as f64),
            Some(J::Num(f)) => Some(*f),
            _ => None,
        }
    }
    pub fn arr(&self, k: &str) -> &[J] {
        match self.get(k) {
            Some(J::Arr(a)) => a.as_slice(),
            _ => &[],
        }
    }
    pub fn as_arr(&self) -> &[J] {
        match self {
            J::Arr(a) => a.as_slice(),
            _ => &[],
        }
    }
    pub fn as_str(&self) -> Option<&str> {
        match self {
            J::Str(s) => Some(s),
            _ => None,
        }
    }
    pub fn s(x: &str) -> J {
        J::Str(x.to_string())
    }
    pub fn strs<I: IntoIterator<Item = String>>(it: I) -> J {
        J::Arr(it.into_iter().map(J::Str).collect())
    }

    pub fn write(&self, out: &mut String) {
        match self {
            J::Null => out.push_str("null"),
            J::Bool(b) => out.push_str(if *b { "true" } else { "false" }),
            J::Int(i) => out.push_str(&i.to_string()),
            J::Num(f) => {
                if f.is_finite() {
                    let s = format!("{:?}", f);
                    out.push_str(&s);
                } else {
                    out.push_str("null");
                }
            }
            J::Str(s) => write_str(s, out),
            J::Arr(a) => {
                out.push('[');
                for (i, x) in a.iter().enumerate() {
                    if i > 0 {
                        out.push(',');
                    }
                    x.write(out);
                }
                out.push(']');
            }
            J::Obj(kv) => {
                out.push('{');
                for (i, (k, v)) in kv.iter().enumerate() {
                    if i > 0 {
                        out.push(',');
                    }
                    write_str(k, out);
                    out.push(':');
                    v.write(out);
                }
                out.push('}');
            }
        }
    }
    pub fn to_string(&self) -> String {
        let mut s = String::new();
        self.write(&mut s);
        s
    }
    pub fn pretty(&self) -> String {
        let mut s = String::new();
        self.pp(&mut s, 0);
        s.push('\n');
        s
    }
    fn pp(&self, out: &mut String, ind: usize) {
        match self {
            J::Arr(a) if !a.is_empty() && a.iter().any(|x| matches!(x, J::Obj(_) | J::Arr(_))) => {
                out.push_str("[\n");
                for (i, x) in a.iter().enumerate() {
                    out.push_str(&" ".repeat(ind + 1));
                    x.pp(out, ind + 1);
                    if i + 1 < a.len() {
                        out.push(',');
                    }
                    out.push('\n');
                }
                out.push_str(&" ".repeat(ind));
                out.push(']');
            }
            J::Obj(kv) if !kv.is_empty() => {
                out.push_str("{\n");
                for (i, (k, v)) in kv.iter().enumerate() {
                    out.push_str(&" ".repeat(ind + 1));
                    write_str(k, out);
                    out.push_str(": ");
                    v.pp(out, ind + 1);
                    if i + 1 < kv.len() {
                        out.push(',');
                    }
                    out.push('\n');
                }
                out.push_str(&" ".repeat(ind));
                out.push('}');
            }
            _ => self.write(out),
        }
    }

    pub fn parse(s: &str) -> Result<J, String> {
        let b: Vec<char> = s.chars().collect();
        let mut p = 0usize;
        let v = parse_val(&b, &mut p)?;
        skip_ws(&b, &mut p);
        if p != b.len() {
            return Err(format!("trailing data at {}", p));
        }
        Ok(v)
    }
}

fn write_str(s: &str, out: &mut String) {
    out.push('"');
    for c in s.chars() {
        match c {
            '"' => out.push_str("\\\""),
            '\\' => out.push_str("\\\\"),
            '\n' => out.push_str("\\n"),
            '\r' => out.push_str("\\r"),
            '\t' => out.push_str("\\t"),
            c if (c as u32) < 0x20 || c == '\u{7f}' || c == '\u{2028}' || c == '\u{2029}' => {
                out.push_str(&format!("\\u{:04x}", c as u32))
            }
            c => out.push(c),
        }
    }
    out.push('"');
}

fn skip_ws(b: &[char], p: &mut usize) {
    while *p < b.len() && (b[*p] == ' ' || b[*p] == '\n' || b[*p] == '\t' || b[*p] == '\r') {
        *p += 1;
    }
}

fn parse_val(b: &[char], p: &mut usize) -> Result<J, String> {
    skip_ws(b, p);
    if *p >= b.len() {
        return Err("eof".into());
    }
    match b[*p] {
        '{' => {
            *p += 1;
            let mut kv = Vec::new();
            skip_ws(b, p);
            if *p < b.len() && b[*p] == '}' {
                *p += 1;
                return Ok(J::Obj(kv));
            }
            loop {
                skip_ws(b, p);
                let k = match parse_val(b, p)? {
                    J::Str(s) => s,
                    _ => return Err("key".into()),
                };
                skip_ws(b, p);
                if *p >= b.len() || b[*p] != ':' {
                    return Err("colon".into());
                }
                *p += 1;
                let v = parse_val(b, p)?;
                kv.push((k, v));
                skip_ws(b, p);
                if *p < b.len() && b[*p] == ',' {
                    *p += 1;
                    continue;
                }
                if *p < b.len() && b[*p] == '}' {
                    *p += 1;
                    return Ok(J::Obj(kv));
                }
                return Err(format!("object at {}", p));
            }
        }
        '[' => {
            *p += 1;
            let mut a = Vec::new();
            skip_ws(b, p);
            if *p < b.len() && b[*p] == ']' {
                *p += 1;
                return Ok(J::Arr(a));
            }
            loop {
                a.push(parse_val(b, p)?);
                skip_ws(b, p);
                if *p < b.len() && b[*p] == ',' {
                    *p += 1;
                    continue;
                }
                if *p < b.len() && b[*p] == ']' {
                    *p += 1;
                    return Ok(J::Arr(a));
                }
                return Err(format!("array at {}", p));
            }
        }
        '"' => {
            *p += 1;
            let mut s = String::new();
            while *p < b.len() {
                let c = b[*p];
                *p += 1;
                match c {
                    '"' => return Ok(J::Str(s)),
                    '\\' => {
                        if *p >= b.len() {
                            return Err("escape".into());
                        }
                        let e = b[*p];
                        *p += 1;
                        match e {
                            'n' => s.push('\n'),
                            't' => s.push('\t'),
                            'r' => s.push('\r'),
                            'b' => s.push('\u{8}'),
                            'f' => s.push('\u{c}'),
                            'u' => {
                                let mut cp = read_hex4(b, p)?;
                                if (0xD800..0xDC00).contains(&cp) && *p + 1 < b.len() && b[*p] == '\\' && b[*p + 1] == 'u' {
                                    *p += 2;
                                    let lo = read_hex4(b, p)?;
                                    cp = 0x10000 + ((cp - 0xD800) << 10) + (lo - 0xDC00);
                                }
                                s.push(char::from_u32(cp).unwrap_or('\u{fffd}'));
                            }
                            other => s.push(other),
                        }
                    }
                    c => s.push(c),
                }
            }
            Err("unterminated string".into())
        }
        't' if b[*p..].starts_with(&['t', 'r', 'u', 'e']) => {
            *p += 4;
            Ok(J::Bool(true))
        }
        'f' if b[*p..].starts_with(&['f', 'a', 'l', 's', 'e']) => {
            *p += 5;
            Ok(J::Bool(false))
        }
        'n' if b[*p..].starts_with(&['n', 'u', 'l', 'l']) => {
            *p += 4;
            Ok(J::Null)
        }
        _ => {
            let st = *p;
            while *p < b.len() && (b[*p].is_ascii_digit() || "+-.eE".contains(b[*p])) {
                *p += 1;
            }
            let t: String = b[st..*p].iter().collect();
            if let Ok(i) = t.parse::<i64>() {
                Ok(J::Int(i))
            } else if let Ok(f) = t.parse::<f64>() {
                Ok(J::Num(f))
            } else {
                Err(format!("bad token at {}", st))
            }
        }
    }
}

fn read_hex4(b: &[char], p: &mut usize) -> Result<u32, String> {
    if *p + 4 > b.len() {
        return Err("short \\u".into());
    }
    let h: String = b[*p..*p + 4].iter().collect();
    *p += 4;
    u32::from_str_radix(&h, 16).map_err(|_| "bad \\u".to_string())
}
