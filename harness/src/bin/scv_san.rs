//! Small in-process workload for Miri / AddressSanitizer / ThreadSanitizer / valgrind.
//! It uses no FFI oracle, so Miri can interpret it; the sanitizer is the monitor here.
//!   scv_san c01 <corpus>            hostile inputs, single thread
//!   scv_san c16 <corpus> <threads>  sequential baseline, then concurrent replay with comparison
//!   scv_san work <corpus> <reps>    every call `reps` times (instruction counting under cachegrind)
use scv::json::J;
use scv::sut;
use scv::val::{Ev, Outcome, Val};
use std::sync::Arc;

struct Call {
    ev: Ev,
    expr: String,
    ph: Val,
}

fn load(path: &str) -> Vec<Call> {
    let text = std::fs::read_to_string(path).expect("corpus");
    let mut v = vec![];
    for l in text.lines() {
        if let Ok(j) = J::parse(l) {
            let ev = Ev::parse(j.str("evaluator").unwrap_or("")).expect("evaluator");
            let expr = j.arr("exprs").first().and_then(|e| e.as_str()).unwrap_or("").to_string();
            let ph = j.arr("placeholders").first().and_then(|e| e.as_str()).and_then(Val::dec).unwrap_or(Val::zero(ev));
            v.push(Call { ev, expr, ph });
        }
    }
    v
}

fn run(c: &Call, y: u64) -> Outcome {
    let len = c.expr.chars().count();
    sut::call_with(c.ev, &c.expr, &c.ph, sut::c02_budget(len), y).outcome
}

fn main() {
    let args: Vec<String> = std::env::args().skip(1).collect();
    let mode = args.first().map(|s| s.as_str()).unwrap_or("");
    let calls = load(args.get(1).map(|s| s.as_str()).unwrap_or(""));
    sut::install_hook();
    match mode {
        "c01" => {
            let (mut ok, mut err, mut panic, mut budget) = (0, 0, 0, 0);
            for c in &calls {
                match run(c, 0) {
                    Outcome::Ok(_) => ok += 1,
                    Outcome::Err(_) => err += 1,
                    Outcome::Panic(m, l) => {
                        panic += 1;
                        println!("SAN-PANIC {}:{:?} {} @{}", c.ev.name(), c.expr, m, l);
                    }
                    Outcome::Budget(_) => budget += 1,
                }
            }
            println!("SAN-DONE mode=c01 calls={} ok={} err={} panic={} budget={}", calls.len(), ok, err, panic, budget);
        }
        "c16" => {
            let threads: usize = args.get(2).and_then(|s| s.parse().ok()).unwrap_or(4);
            let base: Vec<String> = calls.iter().map(|c| run(c, 0).enc()).collect();
            let calls = Arc::new(calls);
            let base = Arc::new(base);
            let mut hs = vec![];
            for t in 0..threads {
                let (calls, base) = (calls.clone(), base.clone());
                // the same stack as the main thread and the monitors' threads (8 MiB + margin): the
                // unoptimised sanitizer builds need several times the frame size of a release build
                hs.push(std::thread::Builder::new().stack_size(8 * 1024 * 1024 + 256 * 1024).spawn(move || {
                    sut::install_hook();
                    let mut bad = 0;
                    let n = calls.len();
                    for j in 0..n {
                        let i = (j + t * n / threads) % n;
                        let o = run(&calls[i], 1 + (t as u64 % 3)).enc();
                        if o != base[i] {
                            bad += 1;
                            println!("SAN-MISMATCH thread={} {}:{:?} first {:?} now {:?}", t, calls[i].ev.name(), calls[i].expr, base[i], o);
                        }
                    }
                    bad
                }).expect("spawn"));
            }
            let bad: usize = hs.into_iter().map(|h| h.join().unwrap_or(1)).sum();
            println!("SAN-DONE mode=c16 calls={} threads={} mismatches={}", calls.len() * (threads + 1), threads, bad);
            if bad > 0 {
                std::process::exit(1);
            }
        }
        "work" => {
            // every call of the corpus `reps` times, nothing else: the instruction counter of the tool
            // this runs under (cachegrind) is the monitor; reps = 0 gives the cost of start-up and loading
            let reps: usize = args.get(2).and_then(|s| s.parse().ok()).unwrap_or(1);
            let mut done = 0usize;
            for c in &calls {
                for _ in 0..reps {
                    let _ = run(c, 0);
                    done += 1;
                }
            }
            println!("SAN-DONE mode=work calls={}", done);
        }
        _ => {
            eprintln!("usage: scv_san c01|c16|work <corpus> [threads|reps]");
            std::process::exit(2);
        }
    }
}
