use scv::driver;

fn main() {
    let args: Vec<String> = std::env::args().skip(1).collect();
    let code = match args.first().map(|s| s.as_str()) {
        Some("worker") => driver::worker_main(&args[1..]),
        Some("check") => driver::check_main(&args[1..]),
        Some("replay") => driver::replay_main(&args[1..]),
        Some("selftest") => scv::selftest::main(&args[1..]),
        Some("gen-c17-corpus") => scv::selftest::gen_c17_corpus(&args[1..]),
        Some("fresh-conc") => scv::selftest::fresh_conc(&args[1..]),
        Some("fresh-seq") => scv::selftest::fresh_seq(&args[1..]),
        Some("gen-corpus") => scv::selftest::gen_corpus(&args[1..]),
        Some("gen-work-corpus") => scv::selftest::gen_work_corpus(&args[1..]),
        Some("fresh") => scv::selftest::fresh(&args[1..]),
        Some("fuzz-seeds") => scv::fuzzcli::seeds(&args[1..]),
        Some("fuzz-dict") => scv::fuzzcli::dict(&args[1..]),
        Some("fuzz-decode") => scv::fuzzcli::decode(&args[1..]),
        Some("fuzz-confirm") => scv::fuzzcli::confirm(&args[1..]),
        Some("probe") => scv::selftest::probe(&args[1..]),
        _ => {
            eprintln!("usage: scv check <ID> [--tier quick|thorough] | replay <path> | selftest | probe <evaluator> <expr> [placeholder]");
            2
        }
    };
    std::process::exit(code);
}
