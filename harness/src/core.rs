//! Cases, verdicts, the per-worker context (sharding, statistics, violation reporting, tracing).

use crate::json::J;
use crate::prng::{fnv, Rng};
use crate::val::{Ev, Outcome, Val};
use std::collections::{BTreeMap, BTreeSet, HashSet};
use std::io::Write;

#[derive(Clone, Copy, PartialEq, Eq, Debug)]
pub enum Tier {
    Quick,
    Thorough,
}

impl Tier {
    pub fn name(self) -> &'static str {
        match self {
            Tier::Quick => "quick",
            Tier::Thorough => "thorough",
        }
    }
    pub fn pick<T>(self, q: T, t: T) -> T {
        match self {
            Tier::Quick => q,
            Tier::Thorough => t,
        }
    }
}

/// One checkable unit: everything `judge` needs to re-execute it (this is what a replay file holds).
#[derive(Clone, Debug)]
pub struct Case {
    pub ev: Ev,
    /// sub-check of the monitor (e.g. "reject", "accept", "perm", "ws")
    pub kind: String,
    pub exprs: Vec<String>,
    pub phs: Vec<Val>,
    /// free-form parameter of the sub-check
    pub extra: String,
}

impl Case {
    pub fn new(ev: Ev, kind: &str, expr: &str, ph: Val) -> Case {
        Case { ev, kind: kind.to_string(), exprs: vec![expr.to_string()], phs: vec![ph], extra: String::new() }
    }
    pub fn pair(ev: Ev, kind: &str, a: &str, pa: Val, b: &str, pb: Val) -> Case {
        Case { ev, kind: kind.to_string(), exprs: vec![a.to_string(), b.to_string()], phs: vec![pa, pb], extra: String::new() }
    }
    pub fn with_extra(mut self, e: &str) -> Case {
        self.extra = e.to_string();
        self
    }
    pub fn to_json(&self) -> J {
        J::obj()
            .set("evaluator", J::s(self.ev.name()))
            .set("kind", J::s(&self.kind))
            .set("exprs", J::strs(self.exprs.iter().cloned()))
            .set("placeholders", J::strs(self.phs.iter().map(|p| p.enc())))
            .set("extra", J::s(&self.extra))
    }
    pub fn from_json(j: &J) -> Option<Case> {
        Some(Case {
            ev: Ev::parse(j.str("evaluator")?)?,
            kind: j.str("kind")?.to_string(),
            exprs: j.arr("exprs").iter().filter_map(|x| x.as_str().map(|s| s.to_string())).collect(),
            phs: j.arr("placeholders").iter().filter_map(|x| x.as_str().and_then(Val::dec)).collect(),
            extra: j.str("extra").unwrap_or("").to_string(),
        })
    }
    pub fn hash(&self) -> u64 {
        let mut s = format!("{}|{}|{}", self.ev.name(), self.kind, self.extra);
        for e in &self.exprs {
            s.push('|');
            s.push_str(e);
        }
        for p in &self.phs {
            s.push('|');
            s.push_str(&p.enc());
        }
        fnv(s.as_bytes())
    }
    pub fn brief(&self) -> String {
        let mut s = format!("{}:{}", self.ev.name(), self.kind);
        for (i, e) in self.exprs.iter().enumerate() {
            let shown: String = e.chars().take(120).collect();
            s.push_str(&format!(" [{}] @={}", shown, self.phs.get(i).map(|p| p.show()).unwrap_or_default()));
        }
        if !self.extra.is_empty() {
            s.push_str(&format!(" ({})", self.extra));
        }
        s
    }
}

#[derive(Clone, Debug)]
pub enum Verdict {
    /// consistent with the property; `nontrivial` per the monitor's stated rule
    Pass { nontrivial: bool },
    /// no verdict (unspecified region, ill-conditioned, attributed to another property)
    Skip(&'static str),
    Viol(Violation),
}

#[derive(Clone, Debug)]
pub struct Violation {
    /// failure class, e.g. "panic", "wrong-value"
    pub class: String,
    /// canonical signature used to match known findings
    pub sig: String,
    pub detail: String,
}

pub fn pass(nontrivial: bool) -> Verdict {
    Verdict::Pass { nontrivial }
}
pub fn viol(class: &str, sig: String, detail: String) -> Verdict {
    Verdict::Viol(Violation { class: class.to_string(), sig, detail })
}

/// Abstract a panic location / message into a stable signature component.
pub fn panic_site(o: &Outcome) -> String {
    match o {
        Outcome::Panic(m, l) => {
            let file = l.rsplit('/').take(2).collect::<Vec<_>>().into_iter().rev().collect::<Vec<_>>().join("/");
            let msg: String = m.chars().take(40).filter(|c| !c.is_ascii_digit()).collect();
            format!("{}|{}", file, msg)
        }
        _ => String::new(),
    }
}

#[derive(Default)]
pub struct Stats {
    pub counters: BTreeMap<String, u64>,
    pub maxes: BTreeMap<String, f64>,
    pub sets: BTreeMap<String, BTreeSet<String>>,
    pub samples: Vec<J>,
    pub distinct: HashSet<u64>,
    pub violations: Vec<J>,
    /// global index of the case being judged
    pub cur_index: u64,
    /// block size for cross-configuration digests (0 = off)
    pub digest_block: u64,
    pub digests: BTreeMap<u64, u64>,
    pub dump_block: Option<u64>,
}

impl Stats {
    pub fn inc(&mut self, k: &str) {
        self.add(k, 1)
    }
    pub fn add(&mut self, k: &str, n: u64) {
        match self.counters.get_mut(k) {
            Some(c) => *c += n,
            None => {
                self.counters.insert(k.to_string(), n);
            }
        }
    }
    pub fn max(&mut self, k: &str, v: f64) {
        let e = self.maxes.entry(k.to_string()).or_insert(f64::NEG_INFINITY);
        if v > *e {
            *e = v;
        }
    }
    /// Fold an outcome into the digest of the current block (order-independent sum); two build
    /// configurations that behave identically produce identical digests.
    pub fn digest(&mut self, case: &Case, o: &Outcome) {
        if self.digest_block == 0 {
            return;
        }
        let block = self.cur_index / self.digest_block;
        let img = match o {
            Outcome::Ok(v) => format!("ok {}", v.enc()),
            other => other.class().to_string(),
        };
        let h = fnv(format!("{}#{}", case.hash(), img).as_bytes());
        let e = self.digests.entry(block).or_insert(0);
        *e = e.wrapping_add(h);
        if self.dump_block == Some(block) {
            println!("DUMP\t{}\t{}\t{}", self.cur_index, case.to_json().to_string(), img);
        }
    }
    pub fn cover(&mut self, set: &str, item: &str) {
        let s = match self.sets.get_mut(set) {
            Some(s) => s,
            None => {
                self.sets.insert(set.to_string(), BTreeSet::new());
                self.sets.get_mut(set).unwrap()
            }
        };
        if !s.contains(item) {
            s.insert(item.to_string());
        }
    }
}

pub struct Ctx {
    pub prop: String,
    pub tier: Tier,
    pub seed: u64,
    pub shard: u64,
    pub nshards: u64,
    pub config: String,
    pub stats: Stats,
    pub trace: Option<std::fs::File>,
    /// only run the case with this global index (isolate mode)
    pub only: Option<u64>,
    /// only run the cases of this digest block: (block, block size)
    pub only_block: Option<(u64, u64)>,
    /// this worker runs the monitor's solo phase (after the others, alone on the machine)
    pub solo: bool,
    index: u64,
    pub max_viol_records: usize,
    viol_sigs: HashSet<String>,
}

impl Ctx {
    pub fn new(prop: &str, tier: Tier, seed: u64, shard: u64, nshards: u64, config: &str) -> Ctx {
        Ctx {
            prop: prop.to_string(),
            tier,
            seed,
            shard,
            nshards,
            config: config.to_string(),
            stats: Stats::default(),
            trace: None,
            only: None,
            only_block: None,
            solo: false,
            index: 0,
            max_viol_records: 200,
            viol_sigs: HashSet::new(),
        }
    }
    pub fn rng(&self, label: &str, index: u64) -> Rng {
        Rng::derive(self.seed, &format!("{}/{}", self.prop, label), index)
    }
    /// Sharding: claim the next global case index; true if this worker owns it.
    pub fn mine(&mut self) -> bool {
        let i = self.index;
        self.index += 1;
        if let Some(o) = self.only {
            return i == o;
        }
        if let Some((b, size)) = self.only_block {
            if size == 0 || i / size != b {
                return false;
            }
        }
        i % self.nshards == self.shard
    }
    pub fn index(&self) -> u64 {
        self.index
    }
    /// Run one case through the judge and account for it.
    pub fn check(&mut self, case: &Case, judge: &dyn Fn(&Case, &mut Stats) -> Verdict) {
        crate::driver::watch(case);
        if let Some(f) = self.trace.as_mut() {
            let _ = writeln!(f, "{}", case.to_json().to_string());
            let _ = f.flush();
        }
        self.stats.cur_index = self.index.saturating_sub(1);
        let v = judge(case, &mut self.stats);
        self.stats.inc("evaluations");
        self.stats.inc(&format!("by_evaluator.{}", case.ev.name()));
        match v {
            Verdict::Pass { nontrivial } => {
                self.stats.inc("passed");
                if nontrivial {
                    self.stats.distinct.insert(case.hash());
                    self.stats.inc(&format!("nontrivial_by_kind.{}", case.kind));
                    let n = self.stats.samples.len();
                    if n < 6 || (n < 24 && case.hash() % 997 == 0) {
                        self.stats.samples.push(case.to_json());
                    }
                }
            }
            Verdict::Skip(why) => {
                self.stats.inc(&format!("skipped.{}", why));
            }
            Verdict::Viol(v) => {
                self.stats.inc("violations");
                self.stats.inc(&format!("violations_by_class.{}", v.class));
                if self.viol_sigs.len() < self.max_viol_records && self.viol_sigs.insert(v.sig.clone()) {
                    let j = J::obj()
                        .set("property", J::s(&self.prop))
                        .set("config", J::s(&self.config))
                        .set("class", J::s(&v.class))
                        .set("sig", J::s(&v.sig))
                        .set("detail", J::s(&v.detail))
                        .set("seed", J::Int(self.seed as i64))
                        .set("case", case.to_json());
                    self.stats.violations.push(j);
                }
            }
        }
    }
}

/// All permutations of 0..n (n <= 6).
pub fn permutations(n: usize) -> Vec<Vec<usize>> {
    fn go(cur: &mut Vec<usize>, used: &mut Vec<bool>, n: usize, out: &mut Vec<Vec<usize>>) {
        if cur.len() == n {
            out.push(cur.clone());
            return;
        }
        for i in 0..n {
            if !used[i] {
                used[i] = true;
                cur.push(i);
                go(cur, used, n, out);
                cur.pop();
                used[i] = false;
            }
        }
    }
    let mut out = vec![];
    go(&mut vec![], &mut vec![false; n], n, &mut out);
    out
}
