//! Small arbitrary-precision integers and rationals for the exact oracles (decimal arithmetic,
//! correct rounding of literals). Schoolbook algorithms; operands here are at most a few thousand bits.

use std::cmp::Ordering;

#[derive(Clone, Debug, PartialEq, Eq)]
pub struct BigU {
    d: Vec<u32>, // little endian, no trailing zero limbs
}

impl BigU {
    pub fn zero() -> BigU {
        BigU { d: vec![] }
    }
    pub fn from_u128(mut x: u128) -> BigU {
        let mut d = vec![];
        while x > 0 {
            d.push(x as u32);
            x >>= 32;
        }
        BigU { d }
    }
    pub fn from_u64(x: u64) -> BigU {
        BigU::from_u128(x as u128)
    }
    pub fn from_dec_str(s: &str) -> BigU {
        let mut r = BigU::zero();
        for c in s.chars() {
            let dg = c.to_digit(10).expect("digit");
            r = r.mul_small(10).add_small(dg);
        }
        r
    }
    fn trim(&mut self) {
        while let Some(0) = self.d.last() {
            self.d.pop();
        }
    }
    pub fn is_zero(&self) -> bool {
        self.d.is_empty()
    }
    pub fn bits(&self) -> usize {
        match self.d.last() {
            None => 0,
            Some(t) => 32 * (self.d.len() - 1) + (32 - t.leading_zeros() as usize),
        }
    }
    pub fn bit(&self, i: usize) -> bool {
        let w = i / 32;
        w < self.d.len() && (self.d[w] >> (i % 32)) & 1 == 1
    }
    pub fn to_u128(&self) -> Option<u128> {
        if self.d.len() > 4 {
            return None;
        }
        let mut x = 0u128;
        for (i, l) in self.d.iter().enumerate() {
            x |= (*l as u128) << (32 * i);
        }
        Some(x)
    }
    pub fn mul_small(&self, m: u32) -> BigU {
        let mut out = Vec::with_capacity(self.d.len() + 1);
        let mut c = 0u64;
        for l in &self.d {
            let v = *l as u64 * m as u64 + c;
            out.push(v as u32);
            c = v >> 32;
        }
        if c > 0 {
            out.push(c as u32);
        }
        let mut r = BigU { d: out };
        r.trim();
        r
    }
    pub fn add_small(&self, a: u32) -> BigU {
        self.add(&BigU::from_u64(a as u64))
    }
    pub fn add(&self, o: &BigU) -> BigU {
        let n = self.d.len().max(o.d.len());
        let mut out = Vec::with_capacity(n + 1);
        let mut c = 0u64;
        for i in 0..n {
            let v = *self.d.get(i).unwrap_or(&0) as u64 + *o.d.get(i).unwrap_or(&0) as u64 + c;
            out.push(v as u32);
            c = v >> 32;
        }
        if c > 0 {
            out.push(c as u32);
        }
        BigU { d: out }
    }
    /// self - o, requires self >= o
    pub fn sub(&self, o: &BigU) -> BigU {
        debug_assert!(self.cmp(o) != Ordering::Less);
        let mut out = Vec::with_capacity(self.d.len());
        let mut b = 0i64;
        for i in 0..self.d.len() {
            let mut v = self.d[i] as i64 - *o.d.get(i).unwrap_or(&0) as i64 - b;
            if v < 0 {
                v += 1 << 32;
                b = 1;
            } else {
                b = 0;
            }
            out.push(v as u32);
        }
        let mut r = BigU { d: out };
        r.trim();
        r
    }
    pub fn mul(&self, o: &BigU) -> BigU {
        if self.is_zero() || o.is_zero() {
            return BigU::zero();
        }
        let mut out = vec![0u32; self.d.len() + o.d.len()];
        for (i, a) in self.d.iter().enumerate() {
            let mut c = 0u64;
            for (j, b) in o.d.iter().enumerate() {
                let v = out[i + j] as u64 + *a as u64 * *b as u64 + c;
                out[i + j] = v as u32;
                c = v >> 32;
            }
            let mut k = i + o.d.len();
            while c > 0 {
                let v = out[k] as u64 + c;
                out[k] = v as u32;
                c = v >> 32;
                k += 1;
            }
        }
        let mut r = BigU { d: out };
        r.trim();
        r
    }
    pub fn shl(&self, n: usize) -> BigU {
        if self.is_zero() {
            return BigU::zero();
        }
        let w = n / 32;
        let b = n % 32;
        let mut out = vec![0u32; w];
        let mut c = 0u32;
        for l in &self.d {
            if b == 0 {
                out.push(*l);
            } else {
                out.push((*l << b) | c);
                c = *l >> (32 - b);
            }
        }
        if c > 0 {
            out.push(c);
        }
        BigU { d: out }
    }
    pub fn shr(&self, n: usize) -> BigU {
        let w = n / 32;
        let b = n % 32;
        if w >= self.d.len() {
            return BigU::zero();
        }
        let mut out = Vec::with_capacity(self.d.len() - w);
        for i in w..self.d.len() {
            let lo = self.d[i] >> b;
            let hi = if b > 0 && i + 1 < self.d.len() { self.d[i + 1] << (32 - b) } else { 0 };
            out.push(lo | hi);
        }
        let mut r = BigU { d: out };
        r.trim();
        r
    }
    pub fn pow10(k: u32) -> BigU {
        let mut r = BigU::from_u64(1);
        let mut k = k;
        while k >= 9 {
            r = r.mul_small(1_000_000_000);
            k -= 9;
        }
        for _ in 0..k {
            r = r.mul_small(10);
        }
        r
    }
    pub fn pow2(k: usize) -> BigU {
        BigU::from_u64(1).shl(k)
    }
    /// (quotient, remainder); binary long division (operands are small enough).
    pub fn divrem(&self, o: &BigU) -> (BigU, BigU) {
        assert!(!o.is_zero());
        if self.cmp(o) == Ordering::Less {
            return (BigU::zero(), self.clone());
        }
        let n = self.bits();
        let mut q = vec![0u32; self.d.len()];
        let mut r = BigU::zero();
        for i in (0..n).rev() {
            r = r.shl(1);
            if self.bit(i) {
                if r.d.is_empty() {
                    r.d.push(1);
                } else {
                    r.d[0] |= 1;
                }
            }
            if r.cmp(o) != Ordering::Less {
                r = r.sub(o);
                q[i / 32] |= 1 << (i % 32);
            }
        }
        let mut q = BigU { d: q };
        q.trim();
        (q, r)
    }
    pub fn to_dec_string(&self) -> String {
        if self.is_zero() {
            return "0".into();
        }
        let mut parts = vec![];
        let mut cur = self.clone();
        let base = BigU::from_u64(1_000_000_000);
        while !cur.is_zero() {
            let (q, r) = cur.divrem(&base);
            parts.push(r.to_u128().unwrap() as u32);
            cur = q;
        }
        let mut s = format!("{}", parts.pop().unwrap());
        while let Some(p) = parts.pop() {
            s.push_str(&format!("{:09}", p));
        }
        s
    }
}

impl PartialOrd for BigU {
    fn partial_cmp(&self, o: &BigU) -> Option<Ordering> {
        Some(self.cmp(o))
    }
}
impl Ord for BigU {
    fn cmp(&self, o: &BigU) -> Ordering {
        if self.d.len() != o.d.len() {
            return self.d.len().cmp(&o.d.len());
        }
        for i in (0..self.d.len()).rev() {
            if self.d[i] != o.d[i] {
                return self.d[i].cmp(&o.d[i]);
            }
        }
        Ordering::Equal
    }
}

/// Signed big integer.
#[derive(Clone, Debug, PartialEq, Eq)]
pub struct BigI {
    pub neg: bool,
    pub mag: BigU,
}

impl BigI {
    pub fn zero() -> BigI {
        BigI { neg: false, mag: BigU::zero() }
    }
    pub fn from_i128(x: i128) -> BigI {
        BigI { neg: x < 0, mag: BigU::from_u128(x.unsigned_abs()) }
    }
    pub fn from_mag(neg: bool, mag: BigU) -> BigI {
        let neg = neg && !mag.is_zero();
        BigI { neg, mag }
    }
    pub fn is_zero(&self) -> bool {
        self.mag.is_zero()
    }
    pub fn is_neg(&self) -> bool {
        self.neg && !self.mag.is_zero()
    }
    pub fn neg(&self) -> BigI {
        BigI::from_mag(!self.neg, self.mag.clone())
    }
    pub fn abs(&self) -> BigI {
        BigI::from_mag(false, self.mag.clone())
    }
    pub fn add(&self, o: &BigI) -> BigI {
        if self.is_neg() == o.is_neg() {
            BigI::from_mag(self.is_neg(), self.mag.add(&o.mag))
        } else {
            match self.mag.cmp(&o.mag) {
                Ordering::Equal => BigI::zero(),
                Ordering::Greater => BigI::from_mag(self.is_neg(), self.mag.sub(&o.mag)),
                Ordering::Less => BigI::from_mag(o.is_neg(), o.mag.sub(&self.mag)),
            }
        }
    }
    pub fn sub(&self, o: &BigI) -> BigI {
        self.add(&o.neg())
    }
    pub fn mul(&self, o: &BigI) -> BigI {
        BigI::from_mag(self.is_neg() != o.is_neg(), self.mag.mul(&o.mag))
    }
    pub fn mul_u(&self, o: &BigU) -> BigI {
        BigI::from_mag(self.is_neg(), self.mag.mul(o))
    }
    pub fn cmp(&self, o: &BigI) -> Ordering {
        match (self.is_neg(), o.is_neg()) {
            (false, true) => Ordering::Greater,
            (true, false) => Ordering::Less,
            (false, false) => self.mag.cmp(&o.mag),
            (true, true) => o.mag.cmp(&self.mag),
        }
    }
    /// truncating division
    pub fn divrem_trunc(&self, o: &BigI) -> (BigI, BigI) {
        let (q, r) = self.mag.divrem(&o.mag);
        (BigI::from_mag(self.is_neg() != o.is_neg(), q), BigI::from_mag(self.is_neg(), r))
    }
    pub fn to_i128(&self) -> Option<i128> {
        let m = self.mag.to_u128()?;
        if self.is_neg() {
            if m <= (i128::MAX as u128) + 1 {
                Some((m as i128).wrapping_neg())
            } else {
                None
            }
        } else if m <= i128::MAX as u128 {
            Some(m as i128)
        } else {
            None
        }
    }
    pub fn to_string(&self) -> String {
        format!("{}{}", if self.is_neg() { "-" } else { "" }, self.mag.to_dec_string())
    }
}

/// Exact rational num/den, den > 0, not necessarily reduced.
#[derive(Clone, Debug)]
pub struct Rat {
    pub num: BigI,
    pub den: BigU,
}

impl Rat {
    pub fn from_int(x: i128) -> Rat {
        Rat { num: BigI::from_i128(x), den: BigU::from_u64(1) }
    }
    /// sign * mant / 10^scale
    pub fn from_decimal(neg: bool, mant: u128, scale: u32) -> Rat {
        Rat { num: BigI::from_mag(neg, BigU::from_u128(mant)), den: BigU::pow10(scale) }
    }
    /// digits with optional single point, e.g. "12.50", ".5", "5."
    pub fn from_literal(text: &str) -> Rat {
        let (ip, fp) = match text.split_once('.') {
            Some((a, b)) => (a, b),
            None => (text, ""),
        };
        let digits = format!("{}{}", ip, fp);
        Rat { num: BigI::from_mag(false, BigU::from_dec_str(&digits)), den: BigU::pow10(fp.len() as u32) }
    }
    pub fn is_zero(&self) -> bool {
        self.num.is_zero()
    }
    pub fn is_neg(&self) -> bool {
        self.num.is_neg()
    }
    pub fn neg(&self) -> Rat {
        Rat { num: self.num.neg(), den: self.den.clone() }
    }
    pub fn abs(&self) -> Rat {
        Rat { num: self.num.abs(), den: self.den.clone() }
    }
    pub fn add(&self, o: &Rat) -> Rat {
        if self.den == o.den {
            return Rat { num: self.num.add(&o.num), den: self.den.clone() };
        }
        Rat { num: self.num.mul_u(&o.den).add(&o.num.mul_u(&self.den)), den: self.den.mul(&o.den) }
    }
    pub fn sub(&self, o: &Rat) -> Rat {
        self.add(&o.neg())
    }
    pub fn mul(&self, o: &Rat) -> Rat {
        Rat { num: self.num.mul(&o.num), den: self.den.mul(&o.den) }
    }
    pub fn div(&self, o: &Rat) -> Option<Rat> {
        if o.is_zero() {
            return None;
        }
        let num = self.num.mul_u(&o.den);
        let den = self.den.mul(&o.num.mag);
        Some(Rat { num: BigI::from_mag(num.is_neg() != o.is_neg(), num.mag), den })
    }
    pub fn cmp(&self, o: &Rat) -> Ordering {
        self.num.mul_u(&o.den).cmp(&o.num.mul_u(&self.den))
    }
    pub fn eq(&self, o: &Rat) -> bool {
        self.cmp(o) == Ordering::Equal
    }
    /// truncation toward zero as an integer
    pub fn trunc(&self) -> BigI {
        let (q, _) = self.num.mag.divrem(&self.den);
        BigI::from_mag(self.num.is_neg(), q)
    }
    pub fn is_integer(&self) -> bool {
        self.num.mag.divrem(&self.den).1.is_zero()
    }
    pub fn floor(&self) -> BigI {
        let t = self.trunc();
        if self.is_neg() && !self.is_integer() {
            t.sub(&BigI::from_i128(1))
        } else {
            t
        }
    }
    pub fn ceil(&self) -> BigI {
        let t = self.trunc();
        if !self.is_neg() && !self.is_integer() {
            t.add(&BigI::from_i128(1))
        } else {
            t
        }
    }
    pub fn from_bigi(x: BigI) -> Rat {
        Rat { num: x, den: BigU::from_u64(1) }
    }
    /// Smallest scale s <= max_scale with self*10^s an integer whose magnitude is below 2^96, if any:
    /// returns (negative, coefficient, scale).
    pub fn as_decimal(&self, max_scale: u32) -> Option<(bool, u128, u32)> {
        for s in 0..=max_scale {
            let n = self.num.mag.mul(&BigU::pow10(s));
            let (q, r) = n.divrem(&self.den);
            if r.is_zero() {
                return match q.to_u128() {
                    Some(m) if m < (1u128 << 96) => Some((self.is_neg(), m, s)),
                    _ => None,
                };
            }
            // early exit: coefficient can only grow with the scale
            if q.bits() > 96 {
                return None;
            }
        }
        None
    }
    /// Nearest f64 (for tolerance comparisons and reporting only).
    pub fn to_f64(&self) -> f64 {
        if self.is_zero() {
            return 0.0;
        }
        // scale so that the quotient has ~64 significant bits
        let nb = self.num.mag.bits() as i64;
        let db = self.den.bits() as i64;
        let shift = 64 - (nb - db);
        let (q, _) = if shift >= 0 { self.num.mag.shl(shift as usize).divrem(&self.den) } else { self.num.mag.divrem(&self.den.shl((-shift) as usize)) };
        let m = q.to_u128().unwrap_or(u128::MAX) as f64;
        let v = m * (2f64).powi(-(shift as i32).clamp(-2000, 2000));
        if self.is_neg() {
            -v
        } else {
            v
        }
    }
}

#[cfg(test)]
mod tests {
    use super::*;
    #[test]
    fn basic() {
        let a = BigU::from_dec_str("123456789012345678901234567890123456789");
        let b = BigU::from_dec_str("987654321098765432109876543210");
        let p = a.mul(&b);
        assert_eq!(p.to_dec_string(), "121932631137021795226185032733622923332237463801111263526900");
        let (q, r) = p.add(&BigU::from_u64(17)).divrem(&b);
        assert_eq!(q, a);
        assert_eq!(r.to_u128(), Some(17));
        assert_eq!(BigU::pow10(30).to_dec_string(), "1000000000000000000000000000000");
        let x = Rat::from_literal("0.1").add(&Rat::from_literal("0.2"));
        assert!(x.eq(&Rat::from_literal("0.3")));
        assert_eq!(x.as_decimal(28), Some((false, 3, 1)));
        assert_eq!(Rat::from_literal("2.5").neg().floor().to_string(), "-3");
        assert!((Rat::from_literal("1").div(&Rat::from_literal("3")).unwrap().to_f64() - 1.0 / 3.0).abs() < 1e-15);
    }
}
