//! C08 — eval_complex is complex-field arithmetic with i*i = -1.

use super::refjudge::*;
use super::Monitor;
use crate::core::*;
use crate::gen::*;
use crate::prng::Rng;
use crate::ref_f64::{self as rf, Q};
use crate::sut;
use crate::syntax::*;
use crate::val::{Ev, Outcome, Val};

pub struct C08;

fn part(x: f64) -> String {
    // non-negative finite part as a literal
    format!("{}", x)
}

/// `(a+bi)` with signs handled so that each part is exact
pub fn cpx_expr(re: f64, im: f64) -> String {
    let r = if re < 0.0 { format!("(-{})", part(-re)) } else { part(re) };
    if im < 0.0 {
        format!("({}-{}i)", r, part(-im))
    } else {
        format!("({}+{}i)", r, part(im))
    }
}

fn grid(rng: &mut Rng) -> (f64, f64) {
    let parts = [0.5, 1.0, 2.0, 3.25, std::f64::consts::PI / 3.0, 7.125, 0.75, 1.5, 0.1, 12.5];
    let g = |rng: &mut Rng| -> f64 {
        let m = if rng.chance(1, 2) {
            *rng.pick(&parts[..])
        } else {
            // log-uniform in [1e-2, 1e2]
            let e = rng.unit() * 4.0 - 2.0;
            (10f64.powf(e) * 1e6).round() / 1e6
        };
        if rng.chance(1, 2) {
            -m
        } else {
            m
        }
    };
    (g(rng), g(rng))
}

fn cpx_funcs() -> Vec<&'static str> {
    spellings_for(Ev::Cpx).into_iter().map(|(s, _)| s).collect()
}

impl Monitor for C08 {
    fn id(&self) -> &'static str {
        "C08"
    }
    fn run(&self, ctx: &mut Ctx) {
        let ev = Ev::Cpx;
        let z0 = Val::C(0.0, 0.0);
        // imaginary literal forms and i*i = -1
        for s in ["i", "2i", ".5i", "5.i", "0.5i", "i*i", "ii", "i^2", "i²", "-i", "2i*3i", "(1+2i)*(3-4i)", "1/i", "i/i", "2i(3)", "i(i)", "(i)i", "0i", "10i+1", "i+i", "i-i", "abs(3+4i)", "abs(i)", "3+4i", "@*i", "@+@", "-@"] {
            if ctx.mine() {
                ctx.check(&Case::new(ev, "literal", s, Val::C(1.5, -2.0)), &|c, st| self.judge(c, st));
            }
        }
        // the periodic functions many periods from the origin: exp, sinh, cosh with a large imaginary
        // part, sin, cos with a large real part (2^k, 10^k, random magnitudes up to 1e12), operands as
        // literals and through @ (seeded change C08-r9: a home-made phase reduction in exp, off by more
        // than 1e-9 from about 2^24)
        {
            let n = ctx.tier.pick(6_000u64, 120_000);
            for i in 0..n {
                if !ctx.mine() {
                    continue;
                }
                let mut rng = ctx.rng("large-phase", i);
                let big = match rng.below(4) {
                    0 => 2f64.powi(5 + rng.below(36) as i32),
                    1 => 10f64.powi(2 + rng.below(11) as i32),
                    2 => (10f64.powf(2.0 + rng.unit() * 10.0) * 8.0).round() / 8.0,
                    _ => (2f64.powi(20 + rng.below(20) as i32) + rng.below(1000) as f64) + 0.25 * rng.below(4) as f64,
                } * if rng.chance(1, 2) { -1.0 } else { 1.0 };
                let small = ((rng.unit() * 8.0 - 4.0) * 64.0).round() / 64.0;
                let (f, z) = match rng.below(5) {
                    0 | 1 => ("exp", (small, big)),
                    2 => ("sinh", (small, big)),
                    3 => (*rng.pick(&["sin", "cos"][..]), (big, small)),
                    _ => ("cosh", (small, big)),
                };
                let (s, ph) = if rng.chance(1, 3) { (format!("{}(@)", f), Val::C(z.0, z.1)) } else { (format!("{}({})", f, cpx_expr(z.0, z.1)), z0) };
                ctx.check(&Case::new(ev, "large-phase", &s, ph), &|c, st| self.judge(c, st));
            }
        }
        // depth-1: operators and functions over generic operands
        let n = ctx.tier.pick(40_000u64, 800_000);
        let funcs = cpx_funcs();
        for i in 0..n {
            if !ctx.mine() {
                continue;
            }
            let mut rng = ctx.rng("depth1", i);
            let (mut a, mut b) = (grid(&mut rng), grid(&mut rng));
            // one operand in five is purely real or purely imaginary (mixed real/complex applications)
            if rng.chance(1, 5) {
                a.1 = 0.0;
            } else if rng.chance(1, 10) {
                a.0 = 0.0;
            }
            if rng.chance(1, 5) {
                b.1 = 0.0;
            } else if rng.chance(1, 10) {
                b.0 = 0.0;
            }
            // one operand in sixteen lies far from one axis (20..1000): tan and tanh have long reached
            // their limits there while the intermediate cosh, sinh overflow
            if rng.chance(1, 16) {
                let big = (20.0 + rng.unit() * 980.0).round() * if rng.chance(1, 2) { -1.0 } else { 1.0 };
                if rng.chance(1, 2) {
                    a.1 = big;
                } else {
                    a.0 = big;
                }
            }
            let lit = |z: (f64, f64)| -> String {
                if z.1 == 0.0 {
                    f64_expr(z.0).unwrap()
                } else if z.0 == 0.0 {
                    if z.1 < 0.0 {
                        format!("(-{}i)", -z.1)
                    } else {
                        format!("{}i", z.1)
                    }
                } else {
                    cpx_expr(z.0, z.1)
                }
            };
            let (sa, sb) = (lit(a), lit(b));
            let via_ph = rng.chance(1, 4);
            let sa2 = if via_ph { "@".to_string() } else { sa.clone() };
            let s = match rng.below(12) {
                0 => format!("{}+{}", sa2, sb),
                1 => format!("{}-{}", sa2, sb),
                2 => format!("{}*{}", sa2, sb),
                3 => format!("{}/{}", sa2, sb),
                4 => format!("{}^{}", sa2, sb),
                5 => format!("-{}", sa2),
                6 => format!("{}{}", sa2, *rng.pick(&["²", "³", "⁰", "¹", "⁵", "⁴", "⁶", "⁷", "⁸", "⁹", "¹²"][..])),
                7 => format!("{}{}", sa2, *rng.pick(&["°", "rad"][..])),
                _ => {
                    let f = *rng.pick(&funcs);
                    let fk = SPELLINGS.iter().find(|(sp, _)| *sp == f).unwrap().1;
                    if fk.arity() == Arity::Two {
                        format!("{}({},{})", f, sa2, sb)
                    } else {
                        format!("{}({})", f, sa2)
                    }
                }
            };
            ctx.check(&Case::new(ev, "depth1", &s, if via_ph { Val::C(a.0, a.1) } else { z0 }), &|c, st| self.judge(c, st));
        }
        // extreme magnitudes: the modulus must not overflow or underflow on the way (hypot), and the
        // component formulas of + - * hold for any finite operands
        let mags: [f64; 13] = [1e-300, 1e-170, 1e-160, 1e-154, 1e-100, 1.0, 1e100, 1e153, 1e155, 1e160, 1e200, 1e300, 1.7e308];
        for ma in mags {
            for mb in mags {
                for (sa, sb) in [(1.0, 1.0), (-1.0, 1.0), (1.0, -1.0)] {
                    if !ctx.mine() {
                        continue;
                    }
                    let (a, b): (f64, f64) = (3.0 * ma * sa, 4.0 * mb * sb);
                    if !(a.is_finite() && b.is_finite()) {
                        continue;
                    }
                    for form in ["abs(@)", "abs(@)+0", "@+@", "@-@", "-@", "abs(@*1)"] {
                        ctx.check(&Case::new(ev, "extreme", form, Val::C(a, b)), &|c, st| self.judge(c, st));
                    }
                    if let (Some(x), Some(y)) = (f64_expr(a), f64_expr(b)) {
                        if x.len() + y.len() < 700 {
                            ctx.check(&Case::new(ev, "extreme", &format!("abs({}+{}i)", x, y.trim_start_matches("(-").trim_end_matches(')')), z0), &|c, st| self.judge(c, st));
                        }
                    }
                }
            }
        }
        // special components: zeros of either sign, subnormals, the smallest normal and its predecessor, in
        // either part of the placeholder, under the exact operations with ordinary partners: the component
        // formulas hold for them as for any other finite value (seeded change C08-r10: fast paths in * that
        // treat a subnormal component as zero)
        {
            let sp: [f64; 9] = [0.0, 5e-324, 1e-310, 3e-310, 2.225073858507201e-308, 2.2250738585072014e-308, 1e-300, 1.0, 3.0];
            let forms = ["@*(2+3i)", "(2+3i)*@", "@*@", "@*2", "2*@", "@*3i", "2i*@", "@*i", "i*@", "@*(0.5-0.25i)", "@-(1+i)", "(1+i)-@", "-@", "@+(0.5-2i)", "@*(1-i)*(2+3i)", "@*4*(2+3i)", "@*1"];
            for a in sp {
                for b in sp {
                    for (sa, sb) in [(1.0, 1.0), (-1.0, 1.0), (1.0, -1.0), (-1.0, -1.0)] {
                        for form in forms {
                            if ctx.mine() {
                                ctx.check(&Case::new(ev, "special-components", form, Val::C(a * sa, b * sb)), &|c, st| self.judge(c, st));
                            }
                        }
                    }
                }
            }
        }
        // depth-2 over the exact operations (+ - * unary minus): component formulas exactly
        let leaf = |rng: &mut Rng| -> Ast {
            match rng.below(4) {
                0 => Ast::ImLit(rng.pick(&["", "2", "0.5", "3", "1.25"][..]).to_string()),
                1 => Ast::Ans,
                _ => Ast::Lit(rng.pick(&["1", "2", "0.5", "3", "7", "1.5", "0.25", "10"][..]).to_string()),
            }
        };
        let mut cfg = GenCfg::full(ev, &leaf);
        cfg.bin_ops = vec![Op::Add, Op::Sub, Op::Mul];
        cfg.funcs = vec![];
        cfg.sup = false;
        cfg.degrad = false;
        let n2 = ctx.tier.pick(30_000u64, 500_000);
        for i in 0..n2 {
            if ctx.mine() {
                let mut rng = ctx.rng("exact", i);
                let depth = 1 + rng.below(5);
                let (_, s) = gen_expr(&cfg, &mut rng, depth);
                let g = grid(&mut rng);
                ctx.check(&Case::new(ev, "exact", &s, Val::C(g.0, g.1)), &|c, st| self.judge(c, st));
            }
        }
        // general trees: every operator, superscripts, implicit products and functions, two or three
        // levels deep; the reference gives a verdict where one tolerance-checked operation sits on
        // exactly known operands, possibly under further exact operations
        let mut cfg = GenCfg::full(ev, &leaf);
        cfg.sup_digits = vec!["2", "3", "0", "1", "5", "4", "6", "7", "8", "9"];
        let n4 = ctx.tier.pick(60_000u64, 800_000);
        for i in 0..n4 {
            if ctx.mine() {
                let mut rng = ctx.rng("tree", i);
                let depth = 2 + rng.below(2);
                let (_, s) = gen_expr(&cfg, &mut rng, depth);
                let g = grid(&mut rng);
                ctx.check(&Case::new(ev, "tree", &s, Val::C(g.0, g.1)), &|c, st| self.judge(c, st));
            }
        }
        // real operands inside the real domain: agreement with eval_f64
        let n3 = ctx.tier.pick(40_000u64, 600_000);
        for i in 0..n3 {
            if !ctx.mine() {
                continue;
            }
            let mut rng = ctx.rng("real", i);
            let real = |rng: &mut Rng| -> f64 {
                let v = match rng.below(4) {
                    0 => *rng.pick(&[0.0, 0.5, 1.0, 2.0, 0.25, 3.0, 10.0, 0.1, 100.0, 0.999, 1.001][..]),
                    1 => (rng.unit() * 2.0 * 1e6).round() / 1e6,
                    2 => (rng.unit() * 20.0 * 1e4).round() / 1e4,
                    _ => (10f64.powf(rng.unit() * 8.0 - 4.0) * 1e8).round() / 1e8,
                };
                if rng.chance(1, 3) {
                    -v
                } else {
                    v
                }
            };
            let (a, mut b) = (real(&mut rng), real(&mut rng));
            // one second operand in six is a small whole number of either sign (whole powers of negative bases are real)
            if rng.chance(1, 6) {
                b = rng.below(19) as f64 - 9.0;
            }
            let (sa, sb) = (f64_expr(a).unwrap(), f64_expr(b).unwrap());
            let s = match rng.below(10) {
                0 => format!("{}+{}", sa, sb),
                1 => format!("{}-{}", sa, sb),
                2 => format!("{}*{}", sa, sb),
                3 => format!("{}/{}", sa, sb),
                4 => format!("{}^{}", sa, sb),
                5 => format!("{}{}", sa, *rng.pick(&["°", "rad", "²", "³"][..])),
                _ => {
                    let f = *rng.pick(&funcs);
                    let fk = SPELLINGS.iter().find(|(sp, _)| *sp == f).unwrap().1;
                    if fk.arity() == Arity::Two {
                        format!("{}({},{})", f, sa, sb)
                    } else {
                        format!("{}({})", f, sa)
                    }
                }
            };
            ctx.check(&Case::new(ev, "real", &s, z0), &|c, st| self.judge(c, st));
        }
    }
    fn judge(&self, case: &Case, st: &mut Stats) -> Verdict {
        let s = &case.exprs[0];
        if case.kind == "real" {
            return judge_real(s, st);
        }
        let p = match parse(case.ev, s) {
            Ok(p) if !p.unspec => p,
            Err(_) if case.kind == "literal" => {
                // "ii" and friends: adjacency of two literals is rejected; must be Err
                let o = sut::call(case.ev, s, &case.phs[0]);
                return match o {
                    Outcome::Ok(v) => viol("ok-on-reject", format!("C08|complex|ok-on-reject|{}", s), format!("rejected by the grammar but returned {}", v.show())),
                    _ => pass(true),
                };
            }
            _ => return Verdict::Skip("not-a-specified-sentence"),
        };
        let o = sut::call(case.ev, s, &case.phs[0]);
        let rv = judge_ref(case.ev, &p.ast, &case.phs[0], &o, false);
        if let RefVerdict::Ok { exact } = rv {
            st.cover(if exact { "exact_operations" } else { "tolerance_operations" }, &p.ast.peel().tag());
            st.inc(&format!("judged.{}", case.kind));
        }
        to_verdict("C08", case.ev, &shape_of(&p.ast), rv, false)
    }
    fn rule(&self) -> &'static str {
        "literal forms (i, Ni, N.i, .Ni, juxtapositions) against the reference lexer; depth-1: every operator and every one of the 24 function spellings over generic operands (both parts non-zero, from a fixed grid and log-uniform in [1e-2,1e2], written as exact `(a+bi)` expressions or bound to @) judged against the harness's own pair arithmetic and principal-branch definitions (component-exact for + - * and unary minus, 1e-12 for / and abs, 1e-9 elsewhere, only away from axes, cuts and branch points); random trees of depth<=5 over + - * compared component-exactly; random trees of depth 2-3 over every operator, superscript, implicit product and function, judged where one tolerance-checked operation sits on exactly known operands, alone or under further + - * / (tolerance derived from the operands' tolerances, no verdict under cancellation); real operands inside the real domain compared with eval_f64 through the public API (1e-9 relative, imaginary part below 1e-9 of the modulus); non-trivial = the reference gives a verdict; distinct = distinct (expression, placeholder)"
    }
    fn assumptions(&self) -> Vec<&'static str> {
        vec![
            "the harness's complex formulas were cross-checked against mpmath once during development (not at check time)",
            "sign of zero is not asserted; operands closer than 1e-3*|z| to an axis or 1e-2 to +-1, +-i get no verdict for tolerance-checked functions",
        ]
    }
    fn floors(&self, _t: Tier) -> Vec<(String, u64)> {
        vec![("set:tolerance_operations".into(), 20), ("judged.depth1".into(), 5_000), ("judged.exact".into(), 5_000), ("judged.tree".into(), 2_000), ("real_agreements".into(), 3_000)]
    }
}

/// a real expression of depth 1: eval_complex must agree with eval_f64 when the latter is finite
fn judge_real(s: &str, st: &mut Stats) -> Verdict {
    let pf = match parse(Ev::F64, s) {
        Ok(p) if !p.unspec => p,
        _ => return Verdict::Skip("not-in-f64-grammar"),
    };
    // inside the real domain? decided by the reference (finite, in-domain)
    let r = rf::eval(&pf.ast, 0.0);
    let in_domain = matches!(r.q, Q::Exact | Q::NumEq | Q::Rel(_)) && r.v.is_finite();
    if !in_domain {
        return Verdict::Skip("outside-real-domain");
    }
    // powers of zero are singular and powers of negative bases complex-valued - outside the real
    // domain - unless the exponent is a (moderate) whole number: (-2)^3 and (-2)^-3 are real
    let whole = |e: f64| e.fract() == 0.0 && e.abs() <= 1000.0;
    let outside = |b: f64, e: Option<f64>| b == 0.0 || (b < 0.0 && !e.map(whole).unwrap_or(false));
    let base_nonpos = match pf.ast.peel() {
        Ast::Bin(Op::Pow, a, b) => outside(rf::eval(a, 0.0).v, Some(rf::eval(b, 0.0).v)),
        Ast::Sup(a, d) => outside(rf::eval(a, 0.0).v, Some(rf::parse_lit(d))),
        Ast::Call(Func::Pow, _, args) => outside(rf::eval(&args[0], 0.0).v, Some(rf::eval(&args[1], 0.0).v)),
        Ast::Call(Func::Root, _, args) => rf::eval(&args[1], 0.0).v <= 0.0,
        _ => false,
    };
    if base_nonpos {
        return Verdict::Skip("power-of-non-positive-base");
    }
    let of = sut::call(Ev::F64, s, &Val::F(0.0));
    let oc = sut::call(Ev::Cpx, s, &Val::C(0.0, 0.0));
    let f = match of {
        Outcome::Ok(Val::F(f)) if f.is_finite() => f,
        _ => return Verdict::Skip("f64-not-finite"),
    };
    match oc {
        Outcome::Ok(Val::C(re, im)) => {
            let modulus = re.hypot(im);
            let ok = (re - f).abs() <= 1e-9 * f.abs() + 1e-300 && im.abs() <= 1e-9 * modulus + 1e-300;
            if ok {
                st.inc("real_agreements");
                st.cover("real_operations", &pf.ast.peel().tag());
                pass(true)
            } else {
                viol("real-disagreement", format!("C08|complex|real-disagreement|{}", pf.ast.peel().tag()), format!("eval_f64 = {:?}, eval_complex = ({:?},{:?})", f, re, im))
            }
        }
        Outcome::Err(m) => viol("err-where-value", format!("C08|complex|err-where-value|{}", pf.ast.peel().tag()), format!("eval_f64 = {:?} but eval_complex returned Err({})", f, m)),
        _ => Verdict::Skip("panic-or-budget"),
    }
}
