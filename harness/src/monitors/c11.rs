//! C11 — aggregates return the true aggregate for any arity and argument order.

use super::c09::num_expr;
use super::refjudge::*;
use super::Monitor;
use crate::core::*;
use crate::gen::*;
use crate::prng::Rng;
use crate::sut;
use crate::syntax::*;
use crate::val::{Ev, Outcome, Val};

pub struct C11;

const EVS: [Ev; 4] = [Ev::F64, Ev::I64, Ev::Dec, Ev::Num];

fn agg_names(ev: Ev) -> Vec<&'static str> {
    let mut v = vec!["min", "max", "avg", "med", "median"];
    if ev == Ev::I64 {
        v.extend(["gcd", "lcm"]);
    }
    v
}

/// small pool of argument expressions (exactly summable values: order cannot change a bit)
fn small_pool(ev: Ev) -> Vec<String> {
    match ev {
        Ev::I64 => ["0", "1", "(-1)", "2", "(-3)", "7", "12", "18", "(-4)"].iter().map(|s| s.to_string()).collect(),
        Ev::Num => ["0", "1", "(-1)", "2.5", "(-3)", "7", "0.5", "4.0", "(-0.25)"].iter().map(|s| s.to_string()).collect(),
        _ => ["0", "1", "(-1)", "2.5", "(-3)", "7", "0.5", "4", "(-0.25)"].iter().map(|s| s.to_string()).collect(),
    }
}

fn big_pool(ev: Ev) -> Vec<String> {
    match ev {
        Ev::I64 => i64_pool().into_iter().map(i64_expr).collect(),
        Ev::F64 => f64_pool().into_iter().filter_map(f64_expr).collect(),
        Ev::Dec => dec_pool().iter().map(dec_expr).collect(),
        Ev::Num => num_pool().iter().filter_map(num_expr).collect(),
        _ => vec![],
    }
}

fn failing_args(ev: Ev) -> Vec<&'static str> {
    match ev {
        Ev::F64 | Ev::Num => vec!["w(-5)", "w(0-1)", "lambert_w(-0.5)"],
        Ev::I64 => vec!["1/0", "5%0", "9223372036854775807+1", "2^64", "21!", "1<<64"],
        Ev::Dec => vec!["1/0", "1%0", "ln(0)", "sqrt(-1)", "79228162514264337593543950335*2", "28!", "w(-5)"],
        _ => vec![],
    }
}

impl Monitor for C11 {
    fn id(&self) -> &'static str {
        "C11"
    }
    fn run(&self, ctx: &mut Ctx) {
        for ev in EVS {
            let z = Val::zero(ev);
            let pool = small_pool(ev);
            let names = agg_names(ev);
            // every list of length 1..=L over the small pool, every aggregate
            let maxlen = ctx.tier.pick(3, 4);
            for len in 1..=maxlen {
                for_each_seq(pool.len(), len, &mut |idx| {
                    for name in &names {
                        if ctx.mine() {
                            let args: Vec<&str> = idx.iter().map(|i| pool[*i].as_str()).collect();
                            let s = format!("{}({})", name, args.join(","));
                            ctx.check(&Case::new(ev, "value", &s, z), &|c, st| self.judge(c, st));
                        }
                    }
                });
            }
            // all permutations of short lists: identical outcomes
            let n_perm = ctx.tier.pick(300u64, 4000);
            let big = big_pool(ev);
            for i in 0..n_perm {
                let mut rng = ctx.rng(&format!("perm/{}", ev.name()), i);
                let len = 2 + rng.below(4);
                let use_big = rng.chance(1, 2);
                let args: Vec<String> = (0..len).map(|_| if use_big { rng.pick(&big).clone() } else { rng.pick(&pool).clone() }).collect();
                let name = *rng.pick(&names);
                let base = format!("{}({})", name, args.join(","));
                for perm in permutations(len) {
                    if ctx.mine() {
                        let pa: Vec<&str> = perm.iter().map(|k| args[*k].as_str()).collect();
                        let s2 = format!("{}({})", name, pa.join(","));
                        if s2 != base {
                            let case = Case::pair(ev, "perm", &base, z, &s2, z).with_extra(if use_big { "boundary-pool" } else { "exact-pool" });
                            ctx.check(&case, &|c, st| self.judge(c, st));
                        }
                    }
                }
            }
            // random lists up to 8 over the boundary pool, value against the multiset oracle
            let n_rand = ctx.tier.pick(30_000u64, 600_000);
            for i in 0..n_rand {
                if ctx.mine() {
                    let mut rng = ctx.rng(&format!("rand/{}", ev.name()), i);
                    // mostly 1..8 arguments, one list in five has 9..40
                    let len = if rng.chance(1, 5) { 9 + rng.below(32) } else { 1 + rng.below(8) };
                    let args: Vec<String> = (0..len).map(|_| if rng.chance(2, 3) { rng.pick(&big).clone() } else { rng.pick(&pool).clone() }).collect();
                    let name = *rng.pick(&names);
                    let s = format!("{}({})", name, args.join(","));
                    ctx.check(&Case::new(ev, "value", &s, z), &|c, st| self.judge(c, st));
                }
            }
            // arguments that are expressions - in particular aggregates themselves, of the same and of
            // other kinds, one to three levels deep, in any position: "the evaluated arguments"
            let n_nest = ctx.tier.pick(20_000u64, 400_000);
            for i in 0..n_nest {
                if ctx.mine() {
                    let mut rng = ctx.rng(&format!("nested/{}", ev.name()), i);
                    fn list(rng: &mut Rng, names: &[&'static str], pool: &[String], depth: usize) -> String {
                        let len = 1 + rng.below(5);
                        let args: Vec<String> = (0..len)
                            .map(|_| {
                                if depth > 0 && rng.chance(1, 3) {
                                    list(rng, names, pool, depth - 1)
                                } else if rng.chance(1, 6) {
                                    format!("{}+{}", rng.pick(pool), rng.pick(pool))
                                } else {
                                    rng.pick(pool).clone()
                                }
                            })
                            .collect();
                        format!("{}({})", *rng.pick(names), args.join(","))
                    }
                    let depth = 1 + rng.below(3);
                    let s = list(&mut rng, &names, &pool, depth);
                    if s.matches('(').count() > 1 {
                        ctx.check(&Case::new(ev, "value", &s, z), &|c, st| self.judge(c, st));
                    }
                }
            }
            // empty lists and failing arguments
            // many aggregate calls in one input: nested in one another, chained, as members of a list
            for (fam, k, s) in repetitions(ev, rep_cap(&ctx.config)) {
                if names.iter().any(|n| s.contains(n)) && ctx.mine() {
                    ctx.check(&Case::new(ev, "value", &s, z).with_extra(&format!("{} x{}", fam, k)), &|c, st| {
                        let v = self.judge(c, st);
                        if let Verdict::Pass { .. } = v {
                            st.inc("repetitions_confirmed");
                            st.max("max_aggregate_calls_in_one_input", k as f64);
                        }
                        v
                    });
                }
            }
            for name in &names {
                if ctx.mine() {
                    ctx.check(&Case::new(ev, "empty", &format!("{}()", name), z), &|c, st| self.judge(c, st));
                }
                for bad in failing_args(ev) {
                    for form in ["{f}({b})", "{f}(1,{b})", "{f}({b},1)", "{f}(1,{b},2)", "{f}(1,2,{b})", "{f}(3,{f}(1,{b}))"] {
                        if ctx.mine() {
                            let s = form.replace("{f}", name).replace("{b}", bad);
                            ctx.check(&Case::new(ev, "failing-argument", &s, z), &|c, st| self.judge(c, st));
                        }
                    }
                }
            }
        }
    }
    fn judge(&self, case: &Case, st: &mut Stats) -> Verdict {
        let ev = case.ev;
        let s = &case.exprs[0];
        let name: String = s.chars().take_while(|c| c.is_ascii_alphabetic()).collect();
        match case.kind.as_str() {
            "perm" => {
                let a = sut::call(ev, s, &case.phs[0]);
                let b = sut::call(ev, &case.exprs[1], &case.phs[1]);
                if matches!(a, Outcome::Budget(_)) || matches!(b, Outcome::Budget(_)) {
                    return Verdict::Skip("budget");
                }
                // each spelling against the multiset oracle (which is order-free by construction)
                let (pa, pb) = match (parse(ev, s), parse(ev, &case.exprs[1])) {
                    (Ok(x), Ok(y)) => (x, y),
                    _ => return Verdict::Skip("not-a-specified-sentence"),
                };
                let ra = judge_ref(ev, &pa.ast, &case.phs[0], &a, true);
                let rb = judge_ref(ev, &pb.ast, &case.phs[1], &b, true);
                for (r, e, o) in [(&ra, s, &a), (&rb, &case.exprs[1], &b)] {
                    if let RefVerdict::Bad(c, d) = r {
                        return viol(c, format!("C11|{}|{}|{}", ev.name(), c, name), format!("{} -> {} : {}", e, o.show(), d));
                    }
                }
                if matches!(ra, RefVerdict::Unspec) || matches!(rb, RefVerdict::Unspec) {
                    return Verdict::Skip("reference-unspecified");
                }
                // exactly summable pool: the two outcomes must be numerically identical
                if case.extra == "exact-pool" && !num_same(&a, &b) {
                    return viol("order-dependence", format!("C11|{}|order-dependence|{}", ev.name(), name), format!("{} -> {} but {} -> {}", s, a.show(), case.exprs[1], b.show()));
                }
                st.inc("permutations_agreeing");
                pass(true)
            }
            "empty" => {
                let o = sut::call(ev, s, &case.phs[0]);
                let is_avg = name == "avg";
                match (&o, is_avg) {
                    (Outcome::Ok(v), true) => {
                        let zero = match v {
                            Val::F(x) | Val::NF(x) => *x == 0.0,
                            Val::I(x) | Val::NI(x) => *x == 0,
                            Val::D(d) => d.mant == 0,
                            _ => false,
                        };
                        if zero {
                            pass(true)
                        } else {
                            viol("wrong-value", format!("C11|{}|wrong-value|avg()", ev.name()), format!("avg() = {}", v.show()))
                        }
                    }
                    (Outcome::Err(_), false) => pass(true),
                    (Outcome::Ok(v), false) => viol("empty-list-accepted", format!("C11|{}|empty-list-accepted|{}", ev.name(), name), format!("{} = {}", s, v.show())),
                    (Outcome::Err(m), true) => viol("err-where-value", format!("C11|{}|err-where-value|avg()", ev.name()), format!("avg() returned Err({})", m)),
                    _ => viol("panic", format!("C11|{}|panic|{}()", ev.name(), name), o.show()),
                }
            }
            "failing-argument" => {
                let o = sut::call(ev, s, &case.phs[0]);
                match o {
                    Outcome::Err(_) => {
                        st.inc("failing_arguments_propagated");
                        pass(true)
                    }
                    Outcome::Ok(v) => viol("value-where-err", format!("C11|{}|value-where-err|{}", ev.name(), name), format!("an argument fails to evaluate but {} = {}", s, v.show())),
                    Outcome::Panic(m, l) => viol("panic", format!("C11|{}|panic|{}", ev.name(), name), format!("an argument fails to evaluate and the aggregate panicked: {} @{}", m, l)),
                    Outcome::Budget(_) => Verdict::Skip("budget"),
                }
            }
            _ => {
                let p = match parse(ev, s) {
                    Ok(p) if !p.unspec => p,
                    _ => return Verdict::Skip("not-a-specified-sentence"),
                };
                let o = sut::call(ev, s, &case.phs[0]);
                let rv = judge_ref(ev, &p.ast, &case.phs[0], &o, true);
                if let RefVerdict::Ok { .. } = rv {
                    st.inc(&format!("values_confirmed.{}.{}", ev.name(), name));
                    if let Ast::Call(_, _, args) = p.ast.peel() {
                        st.max("max_arity", args.len() as f64);
                    }
                }
                to_verdict("C11", ev, &name, rv, false)
            }
        }
    }
    fn rule(&self) -> &'static str {
        "for eval_f64, eval_i64, eval_decimal and eval_number and every aggregate spelling (min max avg med median, plus gcd lcm in eval_i64): every argument list of length 1..3 (quick) / 1..4 (thorough) over a 9-value pool with duplicates, negatives and zeros; random lists of length 1..8 over the evaluator's boundary pool; value judged against an oracle computed from the multiset (i128, exact rationals, doubles with 1e-12*max tolerance, exact typed comparison for eval_number); every permutation of random lists of length 2..5 must give the same outcome bit for bit (1e-12 relative for avg/med of non-exactly-summable doubles); empty lists (avg() = 0, others Err); a failing argument in every position, also nested, must give Err - a panic counts as a violation; non-trivial = the oracle gives a verdict / the pair of spellings differs; distinct = distinct case"
    }
    fn assumptions(&self) -> Vec<&'static str> {
        vec!["non-finite arguments and running sums that leave the type's range in some order are unspecified for the value", "eval_i64 means and even-count medians truncate toward zero"]
    }
    fn floors(&self, _t: Tier) -> Vec<(String, u64)> {
        let mut v = vec![("permutations_agreeing".into(), 2_000), ("failing_arguments_propagated".into(), 200)];
        for ev in EVS {
            for n in agg_names(ev) {
                v.push((format!("values_confirmed.{}.{}", ev.name(), n), 300));
            }
        }
        v
    }
}

/// same class and numerically equal values (variant, scale and sign of zero free)
fn num_same(a: &Outcome, b: &Outcome) -> bool {
    use crate::ref_num::{num_eq, val_nv};
    match (a, b) {
        (Outcome::Err(_), Outcome::Err(_)) => true,
        (Outcome::Ok(x), Outcome::Ok(y)) => match (x, y) {
            (Val::F(p), Val::F(q)) => p == q || (p.is_nan() && q.is_nan()),
            (Val::I(p), Val::I(q)) => p == q,
            (Val::D(p), Val::D(q)) => crate::ref_dec::rat_of(p).eq(&crate::ref_dec::rat_of(q)),
            _ => match (val_nv(x), val_nv(y)) {
                (Some(p), Some(q)) => num_eq(&p, &q),
                _ => false,
            },
        },
        _ => false,
    }
}
