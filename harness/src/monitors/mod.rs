//! One monitor per property. A monitor enumerates cases (`run`) and judges one case (`judge`);
//! replay re-executes `judge` on a recorded case.

use crate::core::{Case, Ctx, Stats, Tier, Verdict};

pub mod c01;
pub mod c02;
pub mod c03;
pub mod c04;
pub mod c05;
pub mod c06;
pub mod c07;
pub mod c08;
pub mod c09;
pub mod c10;
pub mod c11;
pub mod c12;
pub mod c13;
pub mod c14;
pub mod c15;
pub mod c16;
pub mod c17;
pub mod c18;
pub mod c19;
pub mod c20;
pub mod refjudge;
pub mod workload;

pub trait Monitor: Sync + Send {
    fn id(&self) -> &'static str;
    /// build configurations whose workers run this monitor
    fn configs(&self, _tier: Tier) -> Vec<&'static str> {
        // both build configurations by default: a slip hidden behind debug_assertions or
        // overflow checks shows in only one of them
        vec!["checked", "release"]
    }
    fn run(&self, ctx: &mut Ctx);
    fn judge(&self, case: &Case, st: &mut Stats) -> Verdict;
    /// how cases are generated and what makes one non-trivial / distinct
    fn rule(&self) -> &'static str;
    fn assumptions(&self) -> Vec<&'static str>;
    /// coverage floors: (counter name or "set:<name>", minimum); unmet => inconclusive
    fn floors(&self, _tier: Tier) -> Vec<(String, u64)> {
        vec![]
    }
    /// block size for cross-configuration outcome digests (0 = none)
    fn digest_block(&self) -> u64 {
        0
    }
    /// the monitor has a phase that one extra worker per configuration runs after all the others,
    /// with the machine to itself (`ctx.solo`)
    fn solo_phase(&self) -> bool {
        false
    }
    /// the space explored by `run` is finite and enumerated completely
    fn exhaustive(&self) -> bool {
        false
    }
}

pub fn registry() -> Vec<Box<dyn Monitor>> {
    vec![Box::new(c01::C01), Box::new(c02::C02), Box::new(c03::C03), Box::new(c04::C04), Box::new(c05::C05), Box::new(c06::C06), Box::new(c07::C07), Box::new(c08::C08), Box::new(c09::C09), Box::new(c10::C10), Box::new(c11::C11), Box::new(c12::C12), Box::new(c13::C13), Box::new(c14::C14), Box::new(c15::C15), Box::new(c16::C16), Box::new(c17::C17), Box::new(c18::C18), Box::new(c19::C19), Box::new(c20::C20)]
}

pub fn find(id: &str) -> Option<Box<dyn Monitor>> {
    registry().into_iter().find(|m| m.id().eq_ignore_ascii_case(id))
}
