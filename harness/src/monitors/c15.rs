//! C15 — the five evaluators agree on their common sub-language (differential).

use super::c08::C08;
use super::Monitor;
use crate::core::*;
use crate::gen::*;
use crate::prng::Rng;
use crate::ref_f64::{self as rf, libm};
use crate::ref_i64::{self, RI};
use crate::sut;
use crate::syntax::*;
use crate::val::{Ev, Outcome, Val};

pub struct C15;

thread_local! {
    /// relative perturbation applied to the result of every tolerance-checked (inexact) operation
    static FUZZ: std::cell::Cell<f64> = std::cell::Cell::new(1.0);
}

/// Run `f` with the results of inexact operations (°, rad, transcendental functions, non-integer
/// factorials) scaled by `fuzz`: the evaluators may legitimately differ from the reference in the last
/// bits of such values, so a restriction that only holds for one rounding is not a restriction that holds.
pub fn with_fuzz<T>(fuzz: f64, f: impl FnOnce() -> T) -> T {
    FUZZ.with(|c| c.set(fuzz));
    let r = f();
    FUZZ.with(|c| c.set(1.0));
    r
}

/// Plain double evaluation of every node, reporting each intermediate value to `visit`; used only to
/// decide whether an expression lies inside the restricted shared domain.
pub fn loose(ast: &Ast, ph: f64, visit: &mut dyn FnMut(&Ast, f64)) -> Option<f64> {
    let fz = FUZZ.with(|c| c.get());
    let v = match ast {
        Ast::Lit(t) => rf::parse_lit(t),
        Ast::Pi(_) => rf::PI,
        Ast::E => rf::E,
        Ast::Ans => ph,
        Ast::Group(Br::Round, a) | Ast::Pos(a) => loose(a, ph, visit)?,
        Ast::Group(Br::Floor, a) => loose(a, ph, visit)?.floor(),
        Ast::Group(Br::Ceil, a) => loose(a, ph, visit)?.ceil(),
        Ast::Neg(a) => -loose(a, ph, visit)?,
        Ast::IMul(a, b) => loose(a, ph, visit)? * loose(b, ph, visit)?,
        Ast::Bin(op, a, b) => {
            let (x, y) = (loose(a, ph, visit)?, loose(b, ph, visit)?);
            match op {
                Op::Add => x + y,
                Op::Sub => x - y,
                Op::Mul => x * y,
                Op::Div => x / y,
                Op::Mod => rf::c_fmod(x, y),
                Op::Pow => rf::c_pow(x, y),
                _ => return None,
            }
        }
        Ast::Sup(a, d) => rf::c_pow(loose(a, ph, visit)?, rf::parse_lit(d)),
        Ast::Fact(a) => {
            let x = loose(a, ph, visit)?;
            let r = rf::fact_ref(x);
            if r.v.is_nan() {
                return None;
            }
            if matches!(r.q, rf::Q::Rel(_)) {
                r.v * fz
            } else {
                r.v
            }
        }
        Ast::Deg(a) => loose(a, ph, visit)? * rf::PI / 180.0 * fz,
        Ast::Rad(a) => loose(a, ph, visit)? * 180.0 / rf::PI * fz,
        Ast::Call(f, _, args) => {
            let mut xs = vec![];
            for a in args {
                xs.push(loose(a, ph, visit)?);
            }
            match f {
                Func::Min | Func::Max | Func::Avg | Func::Med => {
                    let r = rf::agg_ref(*f, &xs);
                    if r.v.is_nan() {
                        return None;
                    }
                    r.v
                }
                // no stated value (ilog) or no closed form (w): the restriction only needs the magnitude
                // of the node, and eval_f64's own answer serves for that
                Func::W | Func::ILog => match sut::call(Ev::F64, &ast.render(), &Val::F(ph)) {
                    Outcome::Ok(Val::F(v)) => v,
                    _ => return None,
                },
                _ => {
                    let r = rf::func_ref(*f, &xs);
                    if r.v.is_nan() {
                        return None;
                    }
                    if matches!(r.q, rf::Q::Exact | rf::Q::NumEq) {
                        r.v
                    } else {
                        r.v * fz
                    }
                }
            }
        }
        _ => return None,
    };
    visit(ast, v);
    Some(v)
}

/// every division in the tree is exact in integers (decided by the i64 reference)
fn divisions_exact(ast: &Ast, ph: i64) -> bool {
    let here = match ast {
        Ast::Bin(Op::Div, a, b) => match (ref_i64::eval(a, ph), ref_i64::eval(b, ph)) {
            (RI::V(x), RI::V(y)) => y != 0 && x % y == 0 && !(x == i64::MIN && y == -1),
            _ => false,
        },
        _ => true,
    };
    here && ast.children().iter().all(|c| divisions_exact(c, ph))
}

impl Monitor for C15 {
    fn id(&self) -> &'static str {
        "C15"
    }
    fn run(&self, ctx: &mut Ctx) {
        // (a) integer expressions: eval_i64 Ok(v) => eval_number Integer(v)
        {
            let pool = i64_pool();
            let poolc = pool.clone();
            let leaf = move |rng: &mut Rng| -> Ast {
                if rng.chance(1, 8) {
                    return Ast::Ans;
                }
                let v = if rng.chance(1, 3) { *rng.pick(&poolc) } else { rng.range(0, 40) };
                if v >= 0 {
                    Ast::Lit(v.to_string())
                } else if v == i64::MIN {
                    Ast::Lit("7".into())
                } else {
                    Ast::Group(Br::Round, Box::new(Ast::Neg(Box::new(Ast::Lit((-(v as i128)).to_string())))))
                }
            };
            let mut cfg = GenCfg::full(Ev::I64, &leaf);
            cfg.bin_ops = vec![Op::Add, Op::Sub, Op::Mul, Op::Mod, Op::Pow, Op::Div];
            cfg.funcs = vec![Func::Abs, Func::Sgn, Func::Min, Func::Max, Func::Mod];
            cfg.sup_digits = vec!["2", "3", "0", "1", "10", "62", "63", "4", "5", "6", "7", "8", "9"];
            let n = ctx.tier.pick(120_000u64, 2_500_000);
            for i in 0..n {
                if ctx.mine() {
                    let mut rng = ctx.rng("int", i);
                    let depth = 1 + rng.below(5);
                    let (_, s) = gen_expr(&cfg, &mut rng, depth);
                    let ph = *rng.pick(&pool);
                    ctx.check(&Case::pair(Ev::I64, "i64-in-number", &s, Val::I(ph), &s, Val::NI(ph)), &|c, st| self.judge(c, st));
                }
            }
        }
        // (a') one construct repeated many times (nested, chained, as argument list): both evaluators
        // must still answer, and agree
        for (fam, k, s) in repetitions(Ev::I64, rep_cap(&ctx.config)) {
            if ["avg", "med", "gcd", "lcm"].iter().any(|f| s.contains(f)) {
                continue;
            }
            if ctx.mine() {
                let case = Case::pair(Ev::I64, "i64-in-number", &s, Val::I(0), &s, Val::NI(0)).with_extra(&format!("{} x{}", fam, k));
                ctx.check(&case, &|c, st| {
                    let v = self.judge(c, st);
                    if let Verdict::Pass { .. } = v {
                        st.inc("agree.repetitions");
                    }
                    v
                });
            }
        }
        for (fam, k, s) in repetitions(Ev::F64, rep_cap(&ctx.config)) {
            if ctx.mine() {
                let case = Case::pair(Ev::F64, "f64-vs-number", &s, Val::F(0.0), &s, Val::NI(0)).with_extra(&format!("{} x{}", fam, k));
                ctx.check(&case, &|c, st| {
                    let v = self.judge(c, st);
                    if let Verdict::Pass { .. } = v {
                        st.inc("agree.repetitions");
                    }
                    v
                });
            }
        }
        // (a'') literals of every shape (leading zeros, long fractions, many significant digits, either
        // side of the point empty), alone and in a small expression: both evaluators must read the same
        // double (seeded change C18-r8: a fast path for literals of few significant digits in
        // eval_number only, wrong beyond 22 fractional digits)
        {
            let n = ctx.tier.pick(30_000u64, 600_000);
            for i in 0..n {
                if !ctx.mine() {
                    continue;
                }
                let mut rng = ctx.rng("literal", i);
                let digits = |rng: &mut Rng, n: usize| -> String { (0..n).map(|_| char::from(b'0' + rng.below(10) as u8)).collect() };
                let wide = rng.chance(1, 2);
                let sig = 1 + rng.below(if wide { 20 } else { 6 });
                let (n1, n2, n3, n4) = (rng.below(45), rng.below(30), rng.below(15), rng.below(40));
                let lit = match rng.below(5) {
                    // 0.000…0ddd
                    0 => format!("0.{}{}", "0".repeat(n1), digits(&mut rng, sig)),
                    // .000ddd
                    1 => format!(".{}{}", "0".repeat(n2), digits(&mut rng, sig)),
                    // ddd.ddd
                    2 => format!("{}.{}", digits(&mut rng, 1 + n3), digits(&mut rng, n4)),
                    // 000ddd.ddd000
                    3 => format!("{}{}.{}{}", "0".repeat(n3 % 4), digits(&mut rng, 1 + n3 % 8), digits(&mut rng, n4 % 25), "0".repeat(n2)),
                    // ddd.
                    _ => format!("{}.", digits(&mut rng, 1 + n3)),
                };
                let s = match rng.below(4) {
                    0 => format!("{}*3", lit),
                    1 => format!("1+{}", lit),
                    _ => lit,
                };
                ctx.check(&Case::pair(Ev::F64, "f64-vs-number", &s, Val::F(0.0), &s, Val::NI(0)), &|c, st| {
                    let v = self.judge(c, st);
                    if let Verdict::Pass { .. } = v {
                        st.inc("agree.literals");
                    }
                    v
                });
            }
        }
        // (a3) every two-argument function and operator on a grid of whole numbers and their powers (n =
        // b^2, b^3 and neighbours, for b = 2..60 and a few fractions): the same formula written two ways
        // (a quotient of logarithms, a hoisted reciprocal) differs between evaluators exactly there
        // (seeded change C15-r9: ilog(b^2, b) = 1 in eval_number for one base in five)
        {
            let mut forms: Vec<String> = vec!["{a}^{b}".into(), "{a}/{b}".into(), "{a}%{b}".into()];
            for (sp, f) in spellings_for(Ev::F64) {
                if f.arity() == Arity::Two {
                    forms.push(format!("{}({{a}},{{b}})", sp));
                    forms.push(format!("{}({{b}},{{a}})", sp));
                }
            }
            let mut bases: Vec<String> = (2..=60).map(|b| b.to_string()).collect();
            bases.extend(["1.5", "2.1", "2.5", "0.5", "10.5"].iter().map(|s| s.to_string()));
            for form in &forms {
                for b in &bases {
                    let bv: f64 = b.parse().unwrap_or(2.0);
                    for n in [bv * bv, bv * bv * bv, bv * bv + 1.0, bv * bv - 1.0, bv, bv * bv * bv * bv] {
                        if !ctx.mine() {
                            continue;
                        }
                        let nt = match f64_literal(n) {
                            Some(t) => t,
                            None => continue,
                        };
                        let s = form.replace("{a}", &nt).replace("{b}", b);
                        ctx.check(&Case::pair(Ev::F64, "f64-vs-number", &s, Val::F(0.0), &s, Val::NI(0)), &|c, st| {
                            let v = self.judge(c, st);
                            if let Verdict::Pass { .. } = v {
                                st.inc("agree.power-grid");
                            }
                            v
                        });
                    }
                }
            }
        }
        // (a4) the shape family and the repeated-operand family of eval_f64, on both evaluators
        for (c, e) in shape_family(Ev::F64).into_iter().chain(repeated_operand_family(Ev::F64)) {
            if ctx.mine() {
                let s = c.replace("{h}", &format!("({})", e));
                ctx.check(&Case::pair(Ev::F64, "f64-vs-number", &s, Val::F(0.0), &s, Val::NI(0)), &|c, st| {
                    let v = self.judge(c, st);
                    if let Verdict::Pass { .. } = v {
                        st.inc("agree.shapes");
                    }
                    v
                });
            }
        }
        // (b) shared f64 grammar: eval_number's numeric value equals eval_f64's result
        {
            let leaf = |rng: &mut Rng| -> Ast {
                match rng.below(10) {
                    0 => Ast::Ans,
                    1 => Ast::Pi(rng.chance(1, 2)),
                    2 => Ast::E,
                    3 | 4 | 5 => Ast::Lit(rng.range(0, 25).to_string()),
                    _ => Ast::Lit(rng.pick(&["0.5", "2.5", "1.25", "0.1", "3.0", "10.5", "0.75", "100", "1000000", "0.001", "7.0", "2.0"][..]).to_string()),
                }
            };
            let cfg = GenCfg::full(Ev::F64, &leaf);
            let n = ctx.tier.pick(150_000u64, 3_000_000);
            for i in 0..n {
                if ctx.mine() {
                    let mut rng = ctx.rng("f64num", i);
                    let depth = 1 + rng.below(5);
                    let (_, s) = gen_expr(&cfg, &mut rng, depth);
                    let p: f64 = *rng.pick(&[0.5, 2.0, 3.0, 10.0, 0.25, 7.0, 1.5, 100.0][..]);
                    let pn = if p == p.trunc() && rng.chance(1, 2) { Val::NI(p as i64) } else { Val::NF(p) };
                    ctx.check(&Case::pair(Ev::F64, "f64-vs-number", &s, Val::F(p), &s, pn), &|c, st| self.judge(c, st));
                }
            }
        }
        // (c) complex vs f64 on real operands: the C08 real sweep, reported here as a cross-evaluator check
        {
            let n = ctx.tier.pick(40_000u64, 600_000);
            let funcs: Vec<&str> = spellings_for(Ev::Cpx).into_iter().map(|(s, _)| s).collect();
            for i in 0..n {
                if !ctx.mine() {
                    continue;
                }
                let mut rng = ctx.rng("cpxreal", i);
                let real = |rng: &mut Rng| -> f64 {
                    let v = match rng.below(3) {
                        0 => *rng.pick(&[0.0, 0.5, 1.0, 2.0, 0.25, 3.0, 10.0, 0.1, 0.999, 1.001][..]),
                        1 => (rng.unit() * 2.0 * 1e6).round() / 1e6,
                        _ => (rng.unit() * 20.0 * 1e4).round() / 1e4,
                    };
                    if rng.chance(1, 3) {
                        -v
                    } else {
                        v
                    }
                };
                let (a, b) = (f64_expr(real(&mut rng)).unwrap(), f64_expr(real(&mut rng)).unwrap());
                let s = match rng.below(8) {
                    0 => format!("{}+{}", a, b),
                    1 => format!("{}*{}", a, b),
                    2 => format!("{}/{}", a, b),
                    3 => format!("{}^{}", a, b),
                    _ => {
                        let f = *rng.pick(&funcs);
                        let fk = SPELLINGS.iter().find(|(sp, _)| *sp == f).unwrap().1;
                        if fk.arity() == Arity::Two {
                            format!("{}({},{})", f, a, b)
                        } else {
                            format!("{}({})", f, a)
                        }
                    }
                };
                ctx.check(&Case::new(Ev::Cpx, "real", &s, Val::C(0.0, 0.0)), &|c, st| self.judge(c, st));
            }
        }
        // (d) decimal vs f64 on positive well-conditioned expressions over + * / sqrt exp ln pow
        {
            let leaf = |rng: &mut Rng| -> Ast { Ast::Lit(rng.pick(&["0.5", "2", "3", "1.5", "2.5", "10", "0.25", "7", "1.1", "4", "0.75", "12.5", "100"][..]).to_string()) };
            let mut cfg = GenCfg::full(Ev::Dec, &leaf);
            cfg.bin_ops = vec![Op::Add, Op::Mul, Op::Div, Op::Pow];
            cfg.funcs = vec![Func::Sqrt, Func::Exp, Func::Ln, Func::Pow];
            cfg.sign = false;
            cfg.fact = false;
            cfg.sup = false;
            cfg.fc_brackets = false;
            cfg.imul = true;
            let n = ctx.tier.pick(60_000u64, 1_000_000);
            for i in 0..n {
                if ctx.mine() {
                    let mut rng = ctx.rng("decf64", i);
                    let depth = 1 + rng.below(4);
                    let (_, s) = gen_expr(&cfg, &mut rng, depth);
                    ctx.check(&Case::pair(Ev::Dec, "decimal-vs-f64", &s, Val::zero(Ev::Dec), &s, Val::F(0.0)), &|c, st| self.judge(c, st));
                }
            }
        }
    }
    fn judge(&self, case: &Case, st: &mut Stats) -> Verdict {
        let s = &case.exprs[0];
        match case.kind.as_str() {
            "i64-in-number" => {
                let ph = match case.phs[0] {
                    Val::I(p) => p,
                    _ => 0,
                };
                let p = match parse(Ev::I64, s) {
                    Ok(p) if !p.unspec => p,
                    _ => return Verdict::Skip("not-a-specified-sentence"),
                };
                if parse(Ev::Num, s).is_err() {
                    return Verdict::Skip("not-in-shared-grammar");
                }
                // generated inside the domain C06 specifies (weaker reading) and with exact divisions only
                if !matches!(ref_i64::eval(&p.ast, ph), RI::V(_)) || !divisions_exact(&p.ast, ph) {
                    return Verdict::Skip("outside-shared-domain");
                }
                let a = sut::call(Ev::I64, s, &case.phs[0]);
                let b = sut::call(Ev::Num, s, &case.phs[1]);
                match (&a, &b) {
                    (Outcome::Ok(Val::I(v)), Outcome::Ok(Val::NI(w))) if v == w => {
                        st.inc("agree.i64-in-number");
                        st.cover("root_operations.i64-in-number", &p.ast.peel().tag());
                        pass(true)
                    }
                    (Outcome::Ok(Val::I(v)), other) if !matches!(other, Outcome::Panic(..) | Outcome::Budget(_)) => viol("evaluators-disagree", format!("C15|i64-in-number|evaluators-disagree|{}", p.ast.peel().tag()), format!("eval_i64 = {} but eval_number = {}", v, other.show())),
                    _ => Verdict::Skip("i64-not-ok"),
                }
            }
            "f64-vs-number" => {
                let ph = match case.phs[0] {
                    Val::F(p) => p,
                    _ => 0.0,
                };
                let p = match parse(Ev::F64, s) {
                    Ok(p) if !p.unspec => p,
                    _ => return Verdict::Skip("not-a-specified-sentence"),
                };
                // restriction: every intermediate finite, below 2^53, never a negative zero; no Integer^negative Integer
                let mut neg_pow = false;
                check_neg_pow(&p.ast, ph, &mut neg_pow);
                if neg_pow {
                    return Verdict::Skip("outside-shared-domain");
                }
                // the restriction must hold whichever way the inexact operations round
                for fuzz in [1.0, 1.0 + 1e-13, 1.0 - 1e-13] {
                    let mut ok = true;
                    let top = with_fuzz(fuzz, || {
                        loose(&p.ast, ph, &mut |_, v| {
                            if !v.is_finite() || v.abs() >= 9007199254740992.0 || (v == 0.0 && v.is_sign_negative()) {
                                ok = false;
                            }
                        })
                    });
                    if top.is_none() || !ok {
                        return Verdict::Skip("outside-shared-domain");
                    }
                }
                let a = sut::call(Ev::F64, s, &case.phs[0]);
                let b = sut::call(Ev::Num, s, &case.phs[1]);
                let f = match a {
                    Outcome::Ok(Val::F(f)) => f,
                    Outcome::Err(_) => return Verdict::Skip("f64-err"),
                    _ => return Verdict::Skip("panic-or-budget"),
                };
                let g = match b {
                    Outcome::Ok(Val::NF(g)) => g,
                    Outcome::Ok(Val::NI(g)) => {
                        // exact comparison of an Integer with a double below 2^53
                        if f == f.trunc() && f.abs() < 9007199254740992.0 && (f as i64) == g {
                            f
                        } else {
                            return viol("evaluators-disagree", format!("C15|f64-vs-number|evaluators-disagree|{}", p.ast.peel().tag()), format!("eval_f64 = {:?} but eval_number = Integer({})", f, g));
                        }
                    }
                    Outcome::Err(m) => return viol("evaluators-disagree", format!("C15|f64-vs-number|evaluators-disagree|{}", p.ast.peel().tag()), format!("eval_f64 = {:?} but eval_number = Err({})", f, m)),
                    _ => return Verdict::Skip("panic-or-budget"),
                };
                if f == g || (f.is_nan() && g.is_nan()) {
                    st.inc("agree.f64-vs-number");
                    st.cover("root_operations.f64-vs-number", &p.ast.peel().tag());
                    pass(true)
                } else {
                    viol("evaluators-disagree", format!("C15|f64-vs-number|evaluators-disagree|{}", p.ast.peel().tag()), format!("eval_f64 = {:?} but eval_number = {:?}", f, g))
                }
            }
            "real" => {
                // identical judgement to C08's real-operand sweep
                let v = C08.judge(case, st);
                match v {
                    Verdict::Viol(mut x) => {
                        x.sig = x.sig.replacen("C08", "C15", 1);
                        Verdict::Viol(x)
                    }
                    Verdict::Pass { nontrivial } => {
                        st.inc("agree.complex-vs-f64");
                        Verdict::Pass { nontrivial }
                    }
                    o => o,
                }
            }
            "decimal-vs-f64" => {
                let p = match parse(Ev::Dec, s) {
                    Ok(p) if !p.unspec => p,
                    _ => return Verdict::Skip("not-a-specified-sentence"),
                };
                if parse(Ev::F64, s).is_err() {
                    return Verdict::Skip("not-in-shared-grammar");
                }
                // positive, moderate, well-conditioned (conditioning guard on the leaves)
                let mut ok = true;
                let top = loose(&p.ast, 0.0, &mut |_, v| {
                    if !(v.is_finite() && v > 1e-6 && v < 1e12) {
                        ok = false;
                    }
                });
                let top = match top {
                    Some(t) if ok => t,
                    _ => return Verdict::Skip("outside-shared-domain"),
                };
                for d in [1.0 + 1e-13, 1.0 - 1e-13] {
                    match loose(&perturb(&p.ast, d), 0.0, &mut |_, _| {}) {
                        Some(w) if (w - top).abs() <= 1e-11 * top.abs() => {}
                        _ => return Verdict::Skip("ill-conditioned"),
                    }
                }
                // exponents must stay moderate for the same reason
                if has_big_exponent(&p.ast) {
                    return Verdict::Skip("ill-conditioned");
                }
                let a = sut::call(Ev::Dec, s, &case.phs[0]);
                let b = sut::call(Ev::F64, s, &case.phs[1]);
                let f = match b {
                    Outcome::Ok(Val::F(f)) if f.is_finite() => f,
                    _ => return Verdict::Skip("f64-not-finite"),
                };
                match a {
                    Outcome::Ok(Val::D(d)) => {
                        let g = crate::ref_dec::rat_of(&d).to_f64();
                        if rf::close(g, f, 1e-9) {
                            st.inc("agree.decimal-vs-f64");
                            st.cover("root_operations.decimal-vs-f64", &p.ast.peel().tag());
                            pass(true)
                        } else {
                            viol("evaluators-disagree", format!("C15|decimal-vs-f64|evaluators-disagree|{}", p.ast.peel().tag()), format!("eval_f64 = {:?} but eval_decimal = {:?}", f, g))
                        }
                    }
                    Outcome::Err(m) => viol("evaluators-disagree", format!("C15|decimal-vs-f64|evaluators-disagree|{}", p.ast.peel().tag()), format!("eval_f64 = {:?} but eval_decimal = Err({})", f, m)),
                    _ => Verdict::Skip("panic-or-budget"),
                }
            }
            _ => Verdict::Skip("unknown-kind"),
        }
    }
    fn rule(&self) -> &'static str {
        "one rendering, two evaluators: (a) random integer trees (+ - * % ^ unary minus abs sgn min max mod n! and exact /, boundary-pool operands) inside the domain C06 specifies: eval_i64 Ok(v) must be eval_number Integer(v); (b) random trees of the whole f64 grammar whose intermediates (decided by a plain double evaluation) are all finite, below 2^53 and never -0, without Integer^negative Integer: eval_number's numeric value must equal eval_f64's result exactly; (c) every complex operator/function on real operands inside its real domain within 1e-9 of eval_f64; (d) random positive expressions over + * / sqrt exp ln pow that pass a conditioning guard (leaves perturbed by 1e-13 move the result by less than 1e-11): eval_decimal within 1e-9 relative of eval_f64; non-trivial = inside the restricted shared domain and both evaluators returned; distinct = distinct case"
    }
    fn assumptions(&self) -> Vec<&'static str> {
        vec!["the reference is used only to decide whether the restriction of the statement holds, never for the expected value", "the i64-in-number leg is generated inside the domain C06 specifies (n! with n >= 0, exponents 0..2^32-1)"]
    }
    fn floors(&self, _t: Tier) -> Vec<(String, u64)> {
        vec![("agree.i64-in-number".into(), 10_000), ("agree.f64-vs-number".into(), 10_000), ("agree.complex-vs-f64".into(), 3_000), ("agree.decimal-vs-f64".into(), 3_000)]
    }
}

fn check_neg_pow(ast: &Ast, ph: f64, found: &mut bool) {
    let is_int = |a: &Ast| loose(a, ph, &mut |_, _| {}).map(|v| v == v.trunc()).unwrap_or(false);
    match ast {
        Ast::Bin(Op::Pow, a, b) => {
            if let Some(e) = loose(b, ph, &mut |_, _| {}) {
                if e < 0.0 && e == e.trunc() && is_int(a) {
                    *found = true;
                }
            }
        }
        Ast::Call(Func::Pow, _, args) if args.len() == 2 => {
            if let Some(e) = loose(&args[1], ph, &mut |_, _| {}) {
                if e < 0.0 && e == e.trunc() && is_int(&args[0]) {
                    *found = true;
                }
            }
        }
        _ => {}
    }
    for c in ast.children() {
        check_neg_pow(c, ph, found);
    }
}

fn perturb(ast: &Ast, d: f64) -> Ast {
    let f = |a: &Ast| match a {
        Ast::Lit(t) => Some(Ast::Lit(format!("{}", rf::parse_lit(t) * d))),
        _ => None,
    };
    let mut cur = ast.clone();
    let n = super::c13::count_matching(ast, &f);
    for k in 0..n {
        // replace the k-th literal; earlier replacements still match `f`, so indices stay stable
        cur = super::c13::map_nth(&cur, k, &mut 0, &f);
    }
    cur
}

fn has_big_exponent(ast: &Ast) -> bool {
    let here = match ast {
        Ast::Bin(Op::Pow, _, b) => loose(b, 0.0, &mut |_, _| {}).map(|e| e.abs() > 30.0).unwrap_or(true),
        Ast::Call(Func::Pow, _, args) => loose(&args[1], 0.0, &mut |_, _| {}).map(|e| e.abs() > 30.0).unwrap_or(true),
        Ast::Call(Func::Exp, _, args) => loose(&args[0], 0.0, &mut |_, _| {}).map(|e| e.abs() > 30.0).unwrap_or(true),
        _ => false,
    };
    here || ast.children().iter().any(|c| has_big_exponent(c))
}

#[allow(dead_code)]
fn unused() {
    let _ = unsafe { libm::exp(0.0) };
}
