//! C17 — every feature subset builds and each evaluator behaves identically in it.
//! The observations come from the `c17` side stage (stages.py): 31 real builds of the probe crate,
//! whose features forward one-to-one to the library's, and a corpus run in each of them.

use super::Monitor;
use crate::core::*;
use crate::sut;

pub struct C17;

impl Monitor for C17 {
    fn id(&self) -> &'static str {
        "C17"
    }
    fn configs(&self, _t: Tier) -> Vec<&'static str> {
        vec![]
    }
    fn run(&self, _ctx: &mut Ctx) {}
    fn judge(&self, case: &Case, _st: &mut Stats) -> Verdict {
        // replay shows the default-build outcome; the differing configuration is named in the replay file
        let o = sut::call(case.ev, &case.exprs[0], &case.phs[0]);
        println!("default build: {}", o.show());
        println!("to reproduce the other side: cd /verif/harness/probes && cargo run --offline --no-default-features --features <subset> --bin scv_feat <corpus>");
        Verdict::Skip("feature-subset builds are re-run by ./check C17")
    }
    fn rule(&self) -> &'static str {
        "all 31 non-empty subsets of {eval_f64, eval_i64, eval_decimal, eval_complex, eval_number} (exhaustive in the configuration dimension): each is built with cargo --no-default-features --features <subset> through a probe crate whose features forward one-to-one; the build must succeed with `use string_calculator::eval_X` for every selected evaluator (plus Number with eval_number, ParseError always), one unselected evaluator per subset must be an unresolved import, and a corpus (every function spelling, the precedence skeletons that exercise the cfg-gated operator categories, magnitude bombs, random and mutated expressions with hostile placeholders) is run in every configuration and each outcome (Ok bits or Err variant and message, or panic) compared with the default build (the crate's own `default` feature list, dependency features included; the five evaluator features spelled out are subset 31); the corpus includes arithmetic and elementary functions on long random operands, where the algorithms the dependencies were built with show in the last digits; evaluations = (configuration, call) outcomes compared; non-trivial = those in a proper subset; distinct by construction"
    }
    fn assumptions(&self) -> Vec<&'static str> {
        vec!["the build and export sub-claims are compile-time facts: the toolchain's verdict per configuration is the observed event", "the plain crate is built (verification hooks off)"]
    }
    fn floors(&self, t: Tier) -> Vec<(String, u64)> {
        vec![("evaluations".into(), t.pick(20_000, 300_000))]
    }
    fn exhaustive(&self) -> bool {
        false
    }
}
