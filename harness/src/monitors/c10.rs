//! C10 — every documented function, alias and constant computes its mathematical meaning.

use super::c08::cpx_expr;
use super::c09::num_expr;
use super::refjudge::*;
use super::Monitor;
use crate::core::*;
use crate::gen::*;
use crate::prng::Rng;
use crate::sut;
use crate::syntax::*;
use crate::val::{Ev, Val, ALL_EV};

pub struct C10;

fn round_to(x: f64, digits: i32) -> f64 {
    let p = 10f64.powi(digits);
    (x * p).round() / p
}

/// domain edges of the real-valued functions: swept exhaustively for every name, and mixed into the random draws
const EDGES: [f64; 81] = [
    0.0, 1.0, -1.0, 0.5, -0.5, 2.0, 10.0, 0.9999999999999999, 1.0000000000000002, -0.9999999999999999, 1e-9, -1e-9, 1e15, -1e15, 20.0, 21.0, 22.0, 23.0, 170.0, 171.0, 150.5, -149.5, -1.5, -2.5, 0.001, -0.999,
    -0.3678794411714423, -0.36, -0.3, -0.2, 3.0, 100.0, 1e6, 1e-6, 709.0, 710.0, -745.0, 1e300, 1.5707963267948966, 3.141592653589793, 6.283185307179586, 0.25, 4.0, 8.0, 27.0, 1024.0, 1e-300,
    169.0, 172.0, 18.0, 19.0, 62.0, 63.0, 64.0, 1023.0, 1024.5, -0.25, 2.5, -3.0,
    // neighbours of the rounding ties
    0.49999999999999994, -0.49999999999999994, 0.5000000000000001, 1.4999999999999998, 2.5000000000000004, 4503599627370495.5, 4503599627370497.0, 9007199254740991.0, 3.5, -3.5,
    // the ends of the double range (w(f64::MAX) lost 1e-5 to an overflow inside its Halley step; found by the coverage-guided stage)
    1.7976931348623157e308, -1.7976931348623157e308, 8.98846567431158e307, 1e308, 2.2250738585072014e-308, 5e-324, 1e-320, 1e-310,
    // just above -1/e
    -0.36787944, -0.3678794411714384, -0.36787944117143867, -0.367879441,
];
const DEC_EDGES: [f64; 27] = [0.0, 1.0, -1.0, 0.5, 2.0, 10.0, 2.5, 3.5, -2.5, -3.5, 0.25, 27.0, 28.0, 26.0, 4.5, -0.5, -1.5, 20.5, -0.3, -0.36, 100.0, 0.001, 1.5, 2.4, 2.6, -2.4, -2.6];

fn dec_text(x: f64) -> String {
    if x < 0.0 {
        format!("(-{})", format!("{}", -x))
    } else {
        format!("{}", x)
    }
}

/// every edge argument of an evaluator, as (text, placeholder) pairs
fn edge_args(ev: Ev) -> Vec<(String, Option<Val>)> {
    let mut v: Vec<(String, Option<Val>)> = vec![];
    match ev {
        Ev::F64 => {
            for x in EDGES {
                v.push((f64_expr(x).unwrap(), None));
                v.push(("@".into(), Some(Val::F(x))));
            }
        }
        Ev::Num => {
            for x in EDGES {
                v.push(("@".into(), Some(Val::NF(x))));
            }
            for i in i64_pool().into_iter().chain(-3..=25).chain([62, 63, 64, 170, 171]) {
                v.push(("@".into(), Some(Val::NI(i))));
                if let Some(t) = num_expr(&Val::NI(i)) {
                    v.push((t, None));
                }
            }
        }
        Ev::I64 => {
            for i in i64_pool().into_iter().chain(-3..=25).chain([62, 63, 64, 100, 1024]) {
                v.push((i64_expr(i), None));
                v.push(("@".into(), Some(Val::I(i))));
            }
        }
        Ev::Dec => {
            for x in DEC_EDGES {
                v.push((dec_text(x), None));
            }
            for i in 0..=30 {
                v.push((format!("{}", i), None));
            }
        }
        Ev::Cpx => {}
    }
    v
}

/// a real argument from a mixture aimed at domain edges, small, large and negative values
fn real_arg(rng: &mut Rng) -> f64 {
    let edges = EDGES;
    match rng.below(10) {
        0 | 1 => *rng.pick(&edges[..]),
        2 | 3 => round_to(rng.unit() * 2.0 - 1.0, 9),
        4 | 5 => round_to(rng.unit() * 20.0 - 10.0, 6),
        6 => round_to(1.0 + rng.unit() * 50.0, 6),
        7 => rng.range(-30, 60) as f64,
        8 => {
            let m = 10f64.powf(rng.unit() * 16.0 - 8.0);
            let m = round_to(m, 10);
            if rng.chance(1, 3) {
                -m
            } else {
                m
            }
        }
        _ => {
            let m = 10f64.powf(rng.unit() * 600.0 - 300.0);
            if rng.chance(1, 4) {
                -m
            } else {
                m
            }
        }
    }
}

fn int_arg(rng: &mut Rng) -> i64 {
    match rng.below(6) {
        0 => *rng.pick(&i64_pool()),
        1 | 2 => rng.range(-20, 70),
        3 => rng.range(0, 1000),
        4 => (10f64.powf(rng.unit() * 18.0)) as i64,
        _ => -((10f64.powf(rng.unit() * 18.0)) as i64),
    }
}

fn dec_arg(rng: &mut Rng) -> String {
    let x = match rng.below(8) {
        0 => *rng.pick(&[0.0, 1.0, -1.0, 0.5, 2.0, 10.0, 2.5, 3.5, -2.5, -3.5, 0.25, 27.0, 28.0, 26.0, 4.5, -0.5, -1.5, 20.5, -0.3, -0.36, 100.0, 0.001, 1.5, 2.4, 2.6, -2.4, -2.6][..]),
        1 | 2 => round_to(rng.unit() * 2.0 - 1.0, 12),
        3 | 4 => round_to(rng.unit() * 40.0 - 10.0, 8),
        5 => rng.range(-5, 30) as f64,
        _ => {
            let m = round_to(10f64.powf(rng.unit() * 16.0 - 8.0), 12);
            if rng.chance(1, 4) {
                -m
            } else {
                m
            }
        }
    };
    if x < 0.0 {
        format!("(-{})", format!("{}", -x))
    } else {
        format!("{}", x)
    }
}

fn cpx_arg(rng: &mut Rng) -> String {
    let part = |rng: &mut Rng| {
        let m = if rng.chance(1, 2) { round_to(rng.unit() * 4.0 + 0.05, 6) } else { round_to(10f64.powf(rng.unit() * 3.0 - 1.5), 6) };
        if rng.chance(1, 2) {
            -m
        } else {
            m
        }
    };
    if rng.chance(1, 6) {
        // real operand
        return f64_expr(round_to(rng.unit() * 6.0 - 2.0, 6)).unwrap();
    }
    cpx_expr(part(rng), part(rng))
}

fn arg_text(ev: Ev, rng: &mut Rng) -> (String, Option<Val>) {
    match ev {
        Ev::F64 => {
            let x = real_arg(rng);
            if rng.chance(1, 4) {
                ("@".into(), Some(Val::F(x)))
            } else {
                (f64_expr(x).unwrap(), None)
            }
        }
        Ev::Num => {
            let v = if rng.chance(1, 3) { Val::NI(int_arg(rng)) } else { Val::NF(real_arg(rng)) };
            if rng.chance(1, 4) {
                ("@".into(), Some(v))
            } else {
                (num_expr(&v).unwrap(), None)
            }
        }
        Ev::I64 => {
            let x = int_arg(rng);
            if rng.chance(1, 4) {
                ("@".into(), Some(Val::I(x)))
            } else {
                (i64_expr(x), None)
            }
        }
        Ev::Dec => (dec_arg(rng), None),
        Ev::Cpx => (cpx_arg(rng), None),
    }
}

/// the names checked here: every non-aggregate spelling plus the constants and postfix operators
pub fn names(ev: Ev) -> Vec<String> {
    let mut v: Vec<String> = spellings_for(ev).into_iter().filter(|(_, f)| f.arity() != Arity::Var && *f != Func::ILog).map(|(s, _)| s.to_string()).collect();
    if has_consts(ev) {
        v.extend(["pi".to_string(), "π".to_string(), "e".to_string()]);
    }
    if has_fact_mod(ev) {
        v.push("!".into());
    }
    if has_degrad(ev) {
        v.extend(["°".to_string(), "rad".to_string()]);
    }
    v
}

impl Monitor for C10 {
    fn id(&self) -> &'static str {
        "C10"
    }
    fn run(&self, ctx: &mut Ctx) {
        let per = ctx.tier.pick(700u64, 25_000);
        for ev in ALL_EV {
            // every name once more inside the shape family and the repeated-operand family: a function
            // applied to `A op B`, to (b, G(a,b)) ... (gen::shape_family, gen::repeated_operand_family) -
            // what a name computes must not depend on how its argument is written (seeded change C10-r10:
            // root(n, x^n) returned as x)
            for (c, e) in shape_family(ev).into_iter().chain(repeated_operand_family(ev)) {
                if ctx.mine() {
                    let s = c.replace("{h}", &format!("({})", e));
                    let name: String = c.chars().take_while(|ch| ch.is_ascii_alphanumeric() || *ch == '_').collect();
                    ctx.check(&Case::new(ev, "family", &s, Val::zero(ev)).with_extra(if name.is_empty() { "operator" } else { &name }), &|c, st| {
                        let v = self.judge(c, st);
                        if let Verdict::Pass { .. } = v {
                            st.inc("family_members_confirmed");
                        }
                        v
                    });
                }
            }
            if ev == Ev::Cpx {
                // the modulus over the whole double range, both parts non-zero (seeded change C10-r11:
                // abs as sqrt(re^2+im^2), which overflows and underflows long before the modulus does)
                let mags: [f64; 11] = [1e-300, 1e-170, 1e-160, 1e-154, 1e-100, 1.0, 1e100, 1e153, 1e155, 1e200, 1e300];
                for ma in mags {
                    for mb in mags {
                        for form in ["abs(@)", "abs(@*1)", "abs(-@)"] {
                            if ctx.mine() {
                                ctx.check(&Case::new(ev, "apply", form, Val::C(3.0 * ma, -4.0 * mb)).with_extra("abs"), &|c, st| self.judge(c, st));
                            }
                        }
                    }
                }
            }
            let edges = edge_args(ev);
            let seconds = ["2", "3", "0.5", "10", "(0-1)"];
            for name in names(ev) {
                // first the domain edges, each of them, then random draws
                for i in 0..edges.len() as u64 + per {
                    if !ctx.mine() {
                        continue;
                    }
                    let mut rng = ctx.rng(&format!("{}/{}", ev.name(), name), i);
                    let (a, pa) = if (i as usize) < edges.len() { edges[i as usize].clone() } else { arg_text(ev, &mut rng) };
                    let (b, pb) = if (i as usize) < edges.len() {
                        let t = seconds[i as usize % seconds.len()];
                        (if ev == Ev::I64 { t.replace("0.5", "5") } else { t.to_string() }, None)
                    } else {
                        arg_text(ev, &mut rng)
                    };
                    let (b, pb) = if pa.is_some() && pb.is_some() { (a.clone(), None) } else { (b, pb) };
                    let ph = pa.or(pb).unwrap_or(Val::zero(ev));
                    let s = match name.as_str() {
                        "pi" | "π" | "e" => match i % 4 {
                            0 => name.clone(),
                            1 => format!("{}*{}", name, a),
                            2 => format!("{}+{}", a, name),
                            _ => format!("({})", name),
                        },
                        "!" => format!("{}!", a),
                        "°" => format!("{}°", a),
                        "rad" => format!("{}rad", a),
                        n => {
                            let f = SPELLINGS.iter().find(|(sp, _)| *sp == n).unwrap().1;
                            if f.arity() == Arity::Two {
                                format!("{}({},{})", n, a, b)
                            } else {
                                format!("{}({})", n, a)
                            }
                        }
                    };
                    let case = Case::new(ev, "apply", &s, ph).with_extra(&name);
                    ctx.check(&case, &|c, st| self.judge(c, st));
                }
            }
        }
    }
    fn judge(&self, case: &Case, st: &mut Stats) -> Verdict {
        let s = &case.exprs[0];
        let p = match parse(case.ev, s) {
            Ok(p) if !p.unspec => p,
            _ => return Verdict::Skip("not-a-specified-sentence"),
        };
        let o = sut::call(case.ev, s, &case.phs[0]);
        let rv = judge_ref(case.ev, &p.ast, &case.phs[0], &o, false);
        if let RefVerdict::Ok { .. } = rv {
            st.inc(&format!("hits.{}.{}", case.ev.name(), case.extra));
            st.cover(&format!("names.{}", case.ev.name()), &case.extra);
        }
        // signature: name plus a coarse region of the first argument, so that a finding in one region
        // does not hide a miss elsewhere
        let region = region_of(case);
        to_verdict("C10", case.ev, &format!("{}|{}", case.extra, region), rv, false)
    }
    fn rule(&self) -> &'static str {
        "for every evaluator, every README spelling of every one- and two-argument function (aliases included), the constants pi/π/e and the postfix operators ! ° rad: first every domain edge argument in turn (69 real edges as literals and through @, the i64 boundary pool and -3..25, decimal edges and 0..30), then arguments drawn per call from a mixture of domain edges (+-1 neighbours by one ulp, 0, -1/e, 20..23, 170/171, 709/710), uniform [-1,1], [-10,10], [1,51], small integers, log-uniform 1e-8..1e8 and 1e-300..1e300, injected as exact literal expressions and through @ (Integer and Float operands in eval_number, generic `(a+bi)` and real operands in eval_complex); oracle = host libm / tgamma / exact integer and rational arithmetic / the identity w*e^w = x, with the tolerances of the statement (exact for abs sgn floor ceil trunc round n!, 1e-9 otherwise, +-1 for eval_i64's real-valued functions); non-trivial = the argument lies where the reference defines the function; distinct = distinct (evaluator, expression, placeholder)"
    }
    fn assumptions(&self) -> Vec<&'static str> {
        vec![
            "ilog has no stated meaning and is covered by C01/C02 only; aggregates are C11's",
            "eval_decimal transcendental functions are judged for arguments and results within [1e-20,1e20]; complex functions only on generic operands",
        ]
    }
    fn floors(&self, t: Tier) -> Vec<(String, u64)> {
        let min = t.pick(25, 500);
        let mut v = vec![];
        for ev in ALL_EV {
            for n in names(ev) {
                v.push((format!("hits.{}.{}", ev.name(), n), min));
            }
        }
        v
    }
}

fn region_of(case: &Case) -> String {
    // magnitude decade of the first numeric literal (or of the placeholder)
    let s = &case.exprs[0];
    let num: String = s.chars().skip_while(|c| !c.is_ascii_digit() && *c != '@').take_while(|c| c.is_ascii_digit() || *c == '.' || *c == '@').collect();
    let x = if num.starts_with('@') {
        match case.phs[0] {
            Val::F(f) | Val::NF(f) => f.abs(),
            Val::I(i) | Val::NI(i) => (i as f64).abs(),
            _ => 0.0,
        }
    } else {
        num.parse::<f64>().unwrap_or(0.0)
    };
    let neg = s.contains("(-") || matches!(case.phs[0], Val::F(f) | Val::NF(f) if f < 0.0 && num.starts_with('@'));
    let dec = if x == 0.0 { "zero".to_string() } else { format!("1e{}", (x.log10().floor() as i32).clamp(-20, 20)) };
    format!("{}{}", if neg { "neg:" } else { "" }, dec)
}
