//! C01 — no input makes any evaluator panic or abort.

use super::workload::{hostile, Sizes};
use super::Monitor;
use crate::core::*;
use crate::sut;
use crate::syntax::lex;
use crate::val::{Ev, Outcome, Val, ALL_EV};

pub struct C01;

impl Monitor for C01 {
    fn id(&self) -> &'static str {
        "C01"
    }
    fn configs(&self, _t: Tier) -> Vec<&'static str> {
        vec!["checked", "release"]
    }
    fn run(&self, ctx: &mut Ctx) {
        let sz = match ctx.tier {
            Tier::Quick => Sizes { w1_full: 3, w1_class: 4, w2: 3, w3: 80_000, w4: 80_000, bombs: true },
            Tier::Thorough => Sizes { w1_full: 3, w1_class: 5, w2: 4, w3: 1_500_000, w4: 1_500_000, bombs: true },
        };
        if !ctx.solo {
            for ev in ALL_EV {
                hostile(ctx, ev, &sz, "", &mut |ctx, case| {
                    ctx.check(&case, &|c, st| self.judge(c, st));
                });
            }
            return;
        }
        // Solo phase (one worker per configuration, after the others: with 16 busy workers the threads
        // of a child process run almost one after the other and nothing races). First use under contention: fresh processes in which 8 threads leave a barrier together and
        // sweep one construct over ascending arguments. A table that is filled lazily behind a lock is
        // filled there by several threads at once; a slip in that code panics (and poisons the lock)
        // although every single-threaded call is fine (seeded change C01-r9). The outcomes themselves
        // are C16's to compare; here only a panic counts.
        let exe = std::env::current_exe().ok();
        let dir = format!("{}/.build/tmp", crate::driver::root());
        let _ = std::fs::create_dir_all(&dir);
        let templates = ["@!", "(@)!+1", "(@+0.5)!", "w(@)", "ilog(@,2)", "2^@", "@^3", "sqrt(@)", "exp(@/10)", "ln(@+1)", "gcd(@,360)", "lcm(@,12)", "@!/(@-1)!", "med(@,3,@+1)", "root(3,@)", "@%7", "sin(@)", "1/@"];
        // every (evaluator, construct) pair, with the threads in step and with every thread starting
        // elsewhere in the sweep; several times over in the thorough tier
        let n_proc = ALL_EV.len() * templates.len() * 2 * ctx.tier.pick(2usize, 8); // two sweeps per pair, the threads starting at different members (three times in four)
        for s in 0..n_proc {
            let exe = match &exe {
                Some(e) => e,
                None => break,
            };
            let mut rng = ctx.rng("concurrent-first-use", ctx.shard * 1000 + s as u64);
            let combo = (s / 2) % (ALL_EV.len() * templates.len()); // each pair four times in the quick tier: the sweeps are short, what races is the first use
            let ev = ALL_EV[combo % ALL_EV.len()];
            let t = templates[combo / ALL_EV.len()];
            let start = if s % 2 == 0 { *rng.pick(&[18i64, 20, 30][..]) } else { *rng.pick(&[0i64, 15, 100, 150][..]) };
            let cases: Vec<Case> = (0..10 + rng.below(14) as i64)
                .map(|k| {
                    let k = start + k;
                    let ph = match ev {
                        Ev::F64 => Val::F(k as f64),
                        Ev::I64 => Val::I(k),
                        Ev::Dec => Val::D(crate::val::DecV { neg: false, mant: k as u128, scale: 0 }),
                        Ev::Cpx => Val::C(k as f64, 0.0),
                        Ev::Num => {
                            if k % 3 == 0 {
                                Val::NF(k as f64)
                            } else {
                                Val::NI(k)
                            }
                        }
                    };
                    Case::new(ev, "concurrent-first-use", t, ph)
                })
                .collect();
            let path = format!("{}/c01-conc-{}-{}-{}.jsonl", dir, std::process::id(), ctx.shard, s);
            let text: String = cases.iter().map(|c| c.to_json().to_string() + "\n").collect();
            if std::fs::write(&path, text).is_err() {
                continue;
            }
            let out = std::process::Command::new(exe).arg("fresh-conc").arg(&path).arg("8").arg(if s % 4 == 3 { "together" } else { "rotate" }).output();
            let _ = std::fs::remove_file(&path);
            let j = match out {
                Ok(o) if o.status.success() => match crate::json::J::parse(String::from_utf8_lossy(&o.stdout).trim()) {
                    Ok(j) => j,
                    Err(_) => continue,
                },
                _ => {
                    ctx.stats.inc("concurrent_processes_failed_to_run");
                    continue;
                }
            };
            ctx.stats.inc("concurrent_first_use_processes");
            let mut lists: Vec<Vec<String>> = j.arr("threads").iter().map(|a| a.as_arr().iter().filter_map(|x| x.as_str().map(|t| t.to_string())).collect()).collect();
            lists.push(j.arr("after").iter().filter_map(|x| x.as_str().map(|t| t.to_string())).collect());
            for (ti, outs) in lists.iter().enumerate() {
                for (k, o) in outs.iter().enumerate() {
                    if k >= cases.len() {
                        break;
                    }
                    let panicked = o.starts_with("panic ");
                    let c = cases[k].clone().with_extra(&format!("thread {} of a fresh process with 8 threads started together", ti));
                    ctx.check(&c, &|_c, st| {
                        if panicked {
                            let site: String = o.rsplit('@').next().unwrap_or("").chars().filter(|ch| !ch.is_ascii_digit()).collect();
                            viol("panic", format!("C01|{}|panic-under-concurrent-first-use|{}", ev.name(), site.trim_end_matches(':')), format!("panicked when 8 threads of a fresh process evaluated the same ascending sweep together: {}", o))
                        } else {
                            st.inc("concurrent_first_use_calls_without_panic");
                            pass(false)
                        }
                    });
                }
            }
        }
    }
    fn solo_phase(&self) -> bool {
        true
    }
    fn judge(&self, case: &Case, st: &mut Stats) -> Verdict {
        let o = sut::call(case.ev, &case.exprs[0], &case.phs[0]);
        st.inc(&format!("by_outcome.{}", o.class()));
        let depth = case.exprs[0].chars().filter(|c| "(⌊⌈".contains(*c)).count();
        st.max("max_open_brackets", depth as f64);
        match &o {
            Outcome::Panic(m, l) => {
                st.cover("panic_sites", &panic_site(&o));
                viol("panic", format!("C01|{}|panic|{}", case.ev.name(), panic_site(&o)), format!("panicked: {} at {}", m, l))
            }
            Outcome::Budget(_) => Verdict::Skip("step-budget-attributed-to-C02"),
            Outcome::Ok(_) => pass(true),
            Outcome::Err(_) => pass(lex(case.ev, &case.exprs[0]).is_ok()),
        }
    }
    fn rule(&self) -> &'static str {
        "cases = (evaluator, input string, placeholder): W5 magnitude bombs and maximal nestings, every token sequence over the full vocabulary (own + foreign tokens) up to the stated length, every character string over the keyword alphabet up to the stated length, grammar-directed random trees (depth<=6, hostile literal and placeholder pools incl. NaN/inf/-0/extremes) and mutations of them, each in the overflow-checked and the release build; non-trivial = the call returned Ok, or returned Err on an input that passes the reference lexer (i.e. got beyond character-level rejection); distinct = distinct (evaluator, input, placeholder)"
    }
    fn assumptions(&self) -> Vec<&'static str> {
        vec![
            "calls run on a thread with an 8 MiB stack; 'never aborts' is judged against that stack size",
            "a process abort (stack overflow, allocation failure) kills the worker and is pinned on the input by re-running the shard in trace mode",
            "step-budget trips are attributed to C02, not counted here",
        ]
    }
    fn floors(&self, _t: Tier) -> Vec<(String, u64)> {
        vec![("by_outcome.ok".into(), 1000), ("by_outcome.err".into(), 1000), ("concurrent_first_use_calls_without_panic".into(), 10_000)]
    }
}
