//! C01 — no input makes any evaluator panic or abort.

use super::workload::{hostile, Sizes};
use super::Monitor;
use crate::core::*;
use crate::sut;
use crate::syntax::lex;
use crate::val::{Outcome, ALL_EV};

pub struct C01;

impl Monitor for C01 {
    fn id(&self) -> &'static str {
        "C01"
    }
    fn configs(&self, _t: Tier) -> Vec<&'static str> {
        vec!["checked", "release"]
    }
    fn run(&self, ctx: &mut Ctx) {
        let sz = match ctx.tier {
            Tier::Quick => Sizes { w1_full: 3, w1_class: 4, w2: 3, w3: 80_000, w4: 80_000, bombs: true },
            Tier::Thorough => Sizes { w1_full: 3, w1_class: 5, w2: 4, w3: 1_500_000, w4: 1_500_000, bombs: true },
        };
        for ev in ALL_EV {
            hostile(ctx, ev, &sz, "", &mut |ctx, case| {
                ctx.check(&case, &|c, st| self.judge(c, st));
            });
        }
    }
    fn judge(&self, case: &Case, st: &mut Stats) -> Verdict {
        let o = sut::call(case.ev, &case.exprs[0], &case.phs[0]);
        st.inc(&format!("by_outcome.{}", o.class()));
        let depth = case.exprs[0].chars().filter(|c| "(⌊⌈".contains(*c)).count();
        st.max("max_open_brackets", depth as f64);
        match &o {
            Outcome::Panic(m, l) => {
                st.cover("panic_sites", &panic_site(&o));
                viol("panic", format!("C01|{}|panic|{}", case.ev.name(), panic_site(&o)), format!("panicked: {} at {}", m, l))
            }
            Outcome::Budget(_) => Verdict::Skip("step-budget-attributed-to-C02"),
            Outcome::Ok(_) => pass(true),
            Outcome::Err(_) => pass(lex(case.ev, &case.exprs[0]).is_ok()),
        }
    }
    fn rule(&self) -> &'static str {
        "cases = (evaluator, input string, placeholder): W5 magnitude bombs and maximal nestings, every token sequence over the full vocabulary (own + foreign tokens) up to the stated length, every character string over the keyword alphabet up to the stated length, grammar-directed random trees (depth<=6, hostile literal and placeholder pools incl. NaN/inf/-0/extremes) and mutations of them, each in the overflow-checked and the release build; non-trivial = the call returned Ok, or returned Err on an input that passes the reference lexer (i.e. got beyond character-level rejection); distinct = distinct (evaluator, input, placeholder)"
    }
    fn assumptions(&self) -> Vec<&'static str> {
        vec![
            "calls run on a thread with an 8 MiB stack; 'never aborts' is judged against that stack size",
            "a process abort (stack overflow, allocation failure) kills the worker and is pinned on the input by re-running the shard in trace mode",
            "step-budget trips are attributed to C02, not counted here",
        ]
    }
    fn floors(&self, _t: Tier) -> Vec<(String, u64)> {
        vec![("by_outcome.ok".into(), 1000), ("by_outcome.err".into(), 1000)]
    }
}
