//! C07 — eval_decimal arithmetic is exact in base 10.

use super::refjudge::*;
use super::Monitor;
use crate::core::*;
use crate::gen::*;
use crate::prng::Rng;
use crate::sut;
use crate::syntax::*;
use crate::val::{DecV, Ev, Val};

pub struct C07;

fn rand_dec(rng: &mut Rng) -> DecV {
    let digits = 1 + rng.below(29);
    let mut m: u128 = 0;
    for _ in 0..digits {
        m = m * 10 + rng.below(10) as u128;
    }
    let m = m.min((1u128 << 96) - 1);
    DecV { neg: false, mant: m, scale: rng.below(29) as u32 }
}

impl Monitor for C07 {
    fn id(&self) -> &'static str {
        "C07"
    }
    fn run(&self, ctx: &mut Ctx) {
        let ev = Ev::Dec;
        let pool = dec_pool();
        let ops = ["+", "-", "*", "/", "%"];
        let zero = Val::D(DecV { neg: false, mant: 0, scale: 0 });
        for a in &pool {
            for b in &pool {
                for op in ops {
                    for via_ph in [false, true] {
                        if !ctx.mine() {
                            continue;
                        }
                        let sa = if via_ph { "@".to_string() } else { dec_expr(a) };
                        let s = format!("{}{}{}", sa, op, dec_expr(b));
                        ctx.check(&Case::new(ev, "depth1", &s, Val::D(*a)), &|c, st| self.judge(c, st));
                    }
                }
                if ctx.mine() {
                    let s = format!("mod({},{})", dec_expr(a), dec_expr(b));
                    ctx.check(&Case::new(ev, "depth1", &s, zero), &|c, st| self.judge(c, st));
                }
            }
            for form in ["-{a}", "--{a}", "-@", "+{a}", "{a}*1", "{a}+0", "0-{a}"] {
                if ctx.mine() {
                    let s = form.replace("{a}", &dec_expr(a));
                    ctx.check(&Case::new(ev, "depth1", &s, Val::D(*a)), &|c, st| self.judge(c, st));
                }
            }
        }
        // every pair of operators in a three-operand chain, with and without a prefix minus on the
        // second / third operand (precedence and sign handling feeding the exact oracle)
        {
            let vals = ["7", "2", "3", "0.5", "1.25", "10"];
            let ops3 = ["+", "-", "*", "/", "%"];
            for (ia, a) in vals.iter().enumerate() {
                for (ib, b) in vals.iter().enumerate() {
                    for (ic, c) in vals.iter().enumerate() {
                        if (ia + ib + ic) % 3 != 0 {
                            continue;
                        }
                        for o1 in ops3 {
                            for o2 in ops3 {
                                for (nb, nc) in [("", ""), ("-", ""), ("", "-"), ("-", "-"), ("+", "-")] {
                                    if ctx.mine() {
                                        let s = format!("{}{}{}{}{}{}{}", a, o1, nb, b, o2, nc, c);
                                        ctx.check(&Case::new(ev, "chain", &s, zero), &|c, st| self.judge(c, st));
                                    }
                                }
                            }
                        }
                    }
                }
            }
        }
        // fixed probe of the recorded finding, so that every run reports whether it is still there
        if ctx.mine() {
            let a = DecV { neg: true, mant: 39614081257132168796771975167, scale: 0 };
            ctx.check(&Case::new(ev, "depth1", "@%0.200000000000000000000000002", Val::D(a)), &|c, st| self.judge(c, st));
        }
        // three operations sharing an operand, and the shape family
        for (c, e) in repeated_operand_family(ev).into_iter().chain(shape_family(ev)) {
            if ctx.mine() {
                let s = c.replace("{h}", &format!("({})", e));
                ctx.check(&Case::new(ev, "shape", &s, zero), &|c, st| self.judge(c, st));
            }
        }
        // chains built to be exact at every step: x = q*a*b (*c) with small coefficients and scales that
        // add up to at most 28, written x/a/b, x/a*b, x/(a*b), q*a*b, x/a/b/c, x%a ... - so the exact
        // quotient is known to be representable whatever the scales of the operands (sum of the divisors'
        // scales beyond 28, trailing zeros, a divisor of 1e-28). A chain evaluated in another association
        // (x/(a*b) with a rounded product - seeded change C07-r9) leaves the exact value.
        let nq = ctx.tier.pick(40_000u64, 800_000);
        for i in 0..nq {
            if !ctx.mine() {
                continue;
            }
            let mut rng = ctx.rng("quotient-chain", i);
            let small = |rng: &mut Rng| -> u128 { *rng.pick(&[1u128, 2, 3, 5, 7, 4, 15, 21, 25, 125, 375, 9, 11, 13, 101, 999][..]) };
            // scales: either three parts of a budget of at most 28, or two divisors of any scale (their
            // scales may add up to 56) under a quotient that is a multiple of a power of ten, so that the
            // dividend still has at most 28 fractional digits
            let lit = |m: u128, sc: u32| dec_text(&DecV { neg: false, mant: m, scale: sc });
            let (ma, mb, mq) = (small(&mut rng), small(&mut rng), small(&mut rng));
            let (a, b, q, x, xa);
            if rng.chance(1, 2) {
                let total = if rng.chance(2, 3) { 20 + rng.below(9) } else { rng.below(29) } as u32;
                let sa = rng.below(total as usize + 1) as u32;
                let sb = rng.below((total - sa) as usize + 1) as u32;
                let sq = total - sa - sb;
                a = lit(ma, sa);
                b = lit(mb, sb);
                q = lit(mq, sq);
                x = lit(mq * ma * mb, sa + sb + sq);
                xa = lit(mq * ma, sa + sq);
            } else {
                let sa = 8 + rng.below(21) as u32;
                let sb = 8 + rng.below(21) as u32;
                let k = (sa + sb).saturating_sub(28) + rng.below(3) as u32;
                let k = k.min(sa + sb).min(sa); // the quotient q*10^k and the partial result q*a stay plain decimals
                if sa + sb - k > 28 {
                    continue;
                }
                let p10 = |e: u32| 10u128.pow(e);
                a = lit(ma, sa);
                b = lit(mb, sb);
                q = lit(mq * p10(k), 0);
                x = lit(mq * ma * mb, sa + sb - k);
                xa = lit(mq * ma, sa - k);
            }
            let s = match rng.below(9) {
                0 => format!("{}/{}/{}", x, a, b),
                1 => format!("{}/{}/{}", x, b, a),
                2 => format!("{}/({}*{})", x, a, b),
                3 => format!("{}*{}*{}", q, a, b),
                4 => format!("{}/{}*{}", xa, a, b),
                5 => format!("({}/{})/{}", x, a, b),
                6 => format!("{}/{}/{}/{}", x, a, b, q),
                7 => format!("{}%{}", x, a),
                _ => format!("-{}/{}/-{}", x, a, b),
            };
            ctx.check(&Case::new(ev, "quotient-chain", &s, zero), &|c, st| {
                let v = self.judge(c, st);
                if let Verdict::Pass { .. } = v {
                    st.inc("exact_chains_confirmed");
                }
                v
            });
        }
        // random operands of varied scale and magnitude
        let n1 = ctx.tier.pick(60_000u64, 1_000_000);
        for i in 0..n1 {
            if ctx.mine() {
                let mut rng = ctx.rng("rand1", i);
                let (a, b) = (rand_dec(&mut rng), rand_dec(&mut rng));
                let op = *rng.pick(&ops[..]);
                let na = if rng.chance(1, 3) { "-" } else { "" };
                let s = format!("{}{}{}{}", na, dec_text(&a), op, dec_text(&b));
                ctx.check(&Case::new(ev, "depth1", &s, zero), &|c, st| self.judge(c, st));
            }
        }
        // trees over + - * and unary minus; / and % only near the root
        let poolc = pool.clone();
        let leaf = move |rng: &mut Rng| -> Ast {
            if rng.chance(1, 10) {
                return Ast::Ans;
            }
            let d = if rng.chance(1, 3) { *rng.pick(&poolc) } else { rand_dec(rng) };
            Ast::Lit(dec_text(&d))
        };
        let mut cfg = GenCfg::full(ev, &leaf);
        cfg.bin_ops = vec![Op::Add, Op::Sub, Op::Mul];
        cfg.funcs = vec![];
        cfg.fact = false;
        cfg.sup = false;
        cfg.fc_brackets = false;
        cfg.max_len = 1500;
        let n = ctx.tier.pick(60_000u64, 1_000_000);
        for i in 0..n {
            if ctx.mine() {
                let mut rng = ctx.rng("tree", i);
                let depth = 1 + rng.below(5);
                let (_, mut s) = gen_expr(&cfg, &mut rng, depth);
                if rng.chance(1, 4) {
                    let (_, t) = gen_expr(&cfg, &mut rng, 2);
                    s = format!("({}){}({})", s, if rng.chance(1, 2) { "/" } else { "%" }, t);
                }
                let ph = *rng.pick(&pool);
                ctx.check(&Case::new(ev, "tree", &s, Val::D(ph)), &|c, st| self.judge(c, st));
            }
        }
        // exactness does not depend on the length of the input: sums and products of hundreds to a
        // couple of thousand short terms, every term with a prefix sign (a long flat tree)
        let n_long = ctx.tier.pick(48u64, 600);
        for i in 0..n_long {
            if ctx.mine() {
                let mut rng = ctx.rng("long-chain", i);
                // the unoptimised build of the library itself runs out of its 8 MiB stack at about 700 terms
                // (its evaluator recurses once per term), so the longest chains go to the release build only
                let k = rng.below(5);
                let n_terms = if ctx.config == "release" { [120usize, 300, 700, 1100, 1600][k] } else { [60usize, 120, 200, 300, 400][k] };
                let terms = ["0.5", "1", "0.25", "2", "0.125", "3", "1.5", "10", "0.1"];
                let joins: &[&str] = if rng.chance(1, 4) { &["*-", "*", "*+"] } else { &["+-", "--", "+-", "--", "-", "+-"] };
                let small = joins[0] == "*-";
                let mut t = format!("-{}", *rng.pick(&terms[..]));
                for _ in 1..n_terms {
                    t.push_str(*rng.pick(joins));
                    // products stay representable: powers of two shrinking and growing in turn
                    t.push_str(if small { *rng.pick(&["0.5", "2", "1", "2", "0.5"][..]) } else { *rng.pick(&terms[..]) });
                }
                ctx.check(&Case::new(ev, "long-chain", &t, Val::D(pool[0])), &|c, st| self.judge(c, st));
            }
        }
    }
    fn judge(&self, case: &Case, st: &mut Stats) -> Verdict {
        let s = &case.exprs[0];
        let p = match parse(case.ev, s) {
            Ok(p) if !p.unspec => p,
            _ => return Verdict::Skip("not-a-specified-sentence"),
        };
        let o = sut::call(case.ev, s, &case.phs[0]);
        st.inc(&format!("by_outcome.{}", o.class()));
        let rv = judge_ref(case.ev, &p.ast, &case.phs[0], &o, true);
        if let RefVerdict::Ok { exact } = rv {
            st.cover("root_operations", &p.ast.peel().tag());
            st.inc(if o.is_err() {
                "required_errors_observed"
            } else if exact {
                "exact_values_confirmed"
            } else {
                "quotients_within_bound"
            });
        }
        // a remainder whose operands cannot be brought to a common scale within 96 bits is a region of
        // its own (rust_decimal's remainder is wrong there: see known_findings.json); every other
        // violation keeps its operator shape as signature
        let shape = match (&rv, &case.phs[0]) {
            (RefVerdict::Bad("wrong-value", _), Val::D(ph)) if has_rescale_overflow_mod(&p.ast, ph) => "mod-with-rescale-overflow".to_string(),
            _ => shape_of(&p.ast),
        };
        to_verdict("C07", case.ev, &shape, rv, false)
    }
    fn rule(&self) -> &'static str {
        "depth-1: + - * / % (and mod) over every ordered pair of the boundary pool (scales 0..28, 27/28-digit coefficients at scales 0,1,14,27,28, Decimal::MAX and neighbours, negatives, zeros of every scale) as literals and through @, plus random operands of 1..29 digits and scale 0..28; trees of depth<=5 over + - * and unary minus with / or % near the root; flat sums and products of 120..1600 short signed terms (inputs of up to several thousand characters); oracle = exact rational arithmetic on the harness's own big integers: representable results must be numerically equal, non-representable quotients within 1e-27*max(1,|q|), zero divisors and results beyond +-Decimal::MAX must be Err (a panic counts as a violation); in-range results that need rounding are unspecified; non-trivial = the reference gives a verdict; distinct = distinct (expression, placeholder)"
    }
    fn assumptions(&self) -> Vec<&'static str> {
        vec!["numeric equality ignores the scale of the result (0.30 equals 0.3)", "literals are judged only with at most 28 significant and 28 fractional digits"]
    }
    fn floors(&self, _t: Tier) -> Vec<(String, u64)> {
        vec![("required_errors_observed".into(), 500), ("exact_values_confirmed".into(), 10_000), ("quotients_within_bound".into(), 500)]
    }
}

/// Does the tree contain a remainder (% or mod) whose operands, as the reference evaluates them,
/// cannot be rescaled to a common scale without exceeding 96 bits?
fn has_rescale_overflow_mod(ast: &Ast, ph: &DecV) -> bool {
    use crate::ref_dec::{self, RD};
    let here: Option<(&Ast, &Ast)> = match ast {
        Ast::Bin(Op::Mod, a, b) => Some((a.as_ref(), b.as_ref())),
        Ast::Call(Func::Mod, _, args) if args.len() == 2 => Some((&args[0], &args[1])),
        _ => None,
    };
    if let Some((a, b)) = here {
        if let (RD::Exact(x), RD::Exact(y)) = (ref_dec::eval(a, ph), ref_dec::eval(b, ph)) {
            if let (Some((_, mx, sx)), Some((_, my, sy))) = (x.as_decimal(28), y.as_decimal(28)) {
                let s = sx.max(sy);
                let lim = crate::bigint::BigU::pow2(96);
                let up = |m: u128, from: u32| crate::bigint::BigU::from_u128(m).mul(&crate::bigint::BigU::pow10(s - from));
                if up(mx, sx) >= lim || up(my, sy) >= lim {
                    return true;
                }
            }
        }
    }
    ast.children().iter().any(|c| has_rescale_overflow_mod(c, ph))
}
