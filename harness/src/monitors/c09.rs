//! C09 — eval_number keeps integers exact and falls back to doubles only when it must.

use super::refjudge::*;
use super::Monitor;
use crate::core::*;
use crate::gen::*;
use crate::prng::Rng;
use crate::sut;
use crate::syntax::*;
use crate::val::{Ev, Val};

pub struct C09;

/// literal expression for a Number value: Integers without a point, Floats always with one
pub fn num_expr(v: &Val) -> Option<String> {
    match v {
        Val::NI(i) => Some(i64_expr(*i)),
        Val::NF(f) if f.is_finite() => {
            let mut s = format!("{}", f.abs());
            if !s.contains('.') {
                s.push_str(".0");
            }
            Some(if f.is_sign_negative() { format!("(-{})", s) } else { s })
        }
        _ => None,
    }
}

impl Monitor for C09 {
    fn id(&self) -> &'static str {
        "C09"
    }
    fn configs(&self, _t: Tier) -> Vec<&'static str> {
        vec!["checked", "release"]
    }
    fn digest_block(&self) -> u64 {
        4096
    }
    fn run(&self, ctx: &mut Ctx) {
        let ev = Ev::Num;
        let mut pool = num_pool();
        pool.extend(f64_nonfinite().into_iter().map(Val::NF));
        let ops = ["+", "-", "*", "/", "%", "^"];
        for a in &pool {
            for b in &pool {
                for op in ops {
                    if !ctx.mine() {
                        continue;
                    }
                    // operands as literals when expressible, else through @ (one placeholder per call)
                    let (sa, sb, ph) = match (num_expr(a), num_expr(b)) {
                        (Some(x), Some(y)) => (x, y, Val::NI(0)),
                        (None, Some(y)) => ("@".to_string(), y, *a),
                        (Some(x), None) => (x, "@".to_string(), *b),
                        (None, None) => {
                            if a.enc() == b.enc() {
                                ("@".to_string(), "@".to_string(), *a)
                            } else {
                                continue;
                            }
                        }
                    };
                    let s = format!("{}{}{}", sa, op, sb);
                    ctx.check(&Case::new(ev, "depth1", &s, ph), &|c, st| self.judge(c, st));
                }
            }
            for form in ["-{a}", "abs({a})", "sgn({a})", "{a}!", "floor({a})", "ceil({a})", "round({a})", "trunc({a})", "⌊{a}⌋", "⌈{a}⌉", "{a}²", "{a}³", "{a}⁶³", "{a}⁰", "@", "-@", "@+0", "@*1", "floor(@)", "abs(@)"] {
                if ctx.mine() {
                    let s = match num_expr(a) {
                        Some(x) => form.replace("{a}", &x),
                        None => form.replace("{a}", "@"),
                    };
                    ctx.check(&Case::new(ev, "depth1", &s, *a), &|c, st| self.judge(c, st));
                }
            }
        }
        // Integer operand pairs whose exact result lands within a few hundred of +-2^63 (fits / does not
        // fit), +-2^53 and smaller boundaries
        let nb = ctx.tier.pick(40_000u64, 800_000);
        for i in 0..nb {
            if ctx.mine() {
                let mut rng = ctx.rng("boundary", i);
                let (a, op, b) = boundary_seeking(&mut rng);
                let (s, ph) = match rng.below(4) {
                    0 => (format!("@{}{}", op, i64_expr(b)), Val::NI(a)),
                    1 => (format!("{}{}@", i64_expr(a), op), Val::NI(b)),
                    _ => (format!("{}{}{}", i64_expr(a), op, i64_expr(b)), Val::NI(0)),
                };
                ctx.check(&Case::new(ev, "boundary", &s, ph), &|c, st| self.judge(c, st));
            }
        }
        // powers next to the range boundaries, in every spelling
        let np = ctx.tier.pick(20_000u64, 400_000);
        for i in 0..np {
            if ctx.mine() {
                let mut rng = ctx.rng("pow-boundary", i);
                let (b, e) = pow_boundary(&mut rng);
                let bs = i64_expr(b);
                let (s, ph) = match rng.below(6) {
                    0 => (format!("@^{}", e), Val::NI(b)),
                    1 => (format!("pow({},{})", bs, e), Val::NI(0)),
                    2 => (format!("{}{}", bs, crate::syntax::to_sup(&e.to_string())), Val::NI(0)),
                    3 => (format!("pow(@,{})", e), Val::NI(b)),
                    4 => (format!("{}^@", bs), Val::NI(e as i64)),
                    _ => (format!("{}^{}", bs, e), Val::NI(0)),
                };
                ctx.check(&Case::new(ev, "pow-boundary", &s, ph), &|c, st| {
                    let v = self.judge(c, st);
                    if let Verdict::Pass { .. } = v {
                        st.inc("pow_boundaries_confirmed");
                    }
                    v
                });
            }
        }
        // flat chains of + and - whose running Integer total walks along +-2^63: the step that leaves the
        // range must turn the total into the Float of the operands' double values, not earlier, not later
        let nw = ctx.tier.pick(40_000u64, 800_000);
        for i in 0..nw {
            if ctx.mine() {
                let mut rng = ctx.rng("walk", i);
                let s = super::c06::boundary_walk(&mut rng);
                let ph = Val::NI(if s.contains('@') { i64::MAX - rng.below(3) as i64 } else { 0 });
                ctx.check(&Case::new(ev, "walk", &s, ph), &|c, st| {
                    let v = self.judge(c, st);
                    if let Verdict::Pass { .. } = v {
                        st.inc("walks_confirmed");
                    }
                    v
                });
            }
        }
        // rounding functions on a dense set of fractions
        let n0 = ctx.tier.pick(20_000u64, 300_000);
        for i in 0..n0 {
            if ctx.mine() {
                let mut rng = ctx.rng("round", i);
                let base = rng.range(-1000, 1000) as f64;
                let frac = *rng.pick(&[0.0, 0.1, 0.25, 0.4, 0.5, 0.6, 0.75, 0.9, 0.499999999, 0.500000001][..]);
                let scale = *rng.pick(&[1.0, 1.0, 1.0, 1e6, 1e12, 4503599627370496.0, 9007199254740992.0, 1e18, 1e19][..]);
                let x = (base + frac) * scale;
                let f = *rng.pick(&["floor", "ceil", "round", "trunc", "truncate"][..]);
                let s = format!("{}({})", f, num_expr(&Val::NF(x)).unwrap());
                ctx.check(&Case::new(ev, "rounding", &s, Val::NI(0)), &|c, st| self.judge(c, st));
            }
        }
        // three-level shapes f(A op B) (see gen::shape_family)
        for (c, e) in shape_family(ev).into_iter().chain(repeated_operand_family(ev)) {
            if ctx.mine() {
                let s = c.replace("{h}", &format!("({})", e));
                ctx.check(&Case::new(ev, "shape", &s, Val::NI(0)), &|c, st| {
                    let v = self.judge(c, st);
                    if let Verdict::Pass { .. } = v {
                        st.inc("shapes_confirmed");
                    }
                    v
                });
            }
        }
        // random typed trees
        let poolc = pool.clone();
        let leaf = move |rng: &mut Rng| -> Ast {
            if rng.chance(1, 8) {
                return Ast::Ans;
            }
            match rng.below(4) {
                0 => Ast::Lit(rng.range(0, 30).to_string()),
                1 => Ast::Lit(rng.pick(&["0.5", "2.5", "1.25", "0.1", "3.0", "2.0", "10.5", "0.75"][..]).to_string()),
                _ => loop {
                    if let Some(s) = num_expr(rng.pick(&poolc)) {
                        if !s.starts_with('(') {
                            return Ast::Lit(s);
                        }
                    }
                },
            }
        };
        let mut cfg = GenCfg::full(ev, &leaf);
        cfg.funcs = vec![Func::Abs, Func::Sgn, Func::Floor, Func::Ceil, Func::Round, Func::Trunc, Func::Mod, Func::Pow, Func::Min, Func::Max];
        cfg.degrad = false;
        cfg.sup_digits = vec!["2", "3", "0", "1", "10", "62", "63", "64", "4", "5", "6", "7", "8", "9"];
        let phs = ph_pool(ev);
        let n = ctx.tier.pick(150_000u64, 3_000_000);
        for i in 0..n {
            if ctx.mine() {
                let mut rng = ctx.rng("tree", i);
                let depth = 1 + rng.below(5);
                let (_, s) = gen_expr(&cfg, &mut rng, depth);
                ctx.check(&Case::new(ev, "tree", &s, *rng.pick(&phs)), &|c, st| self.judge(c, st));
            }
        }
    }
    fn judge(&self, case: &Case, st: &mut Stats) -> Verdict {
        let s = &case.exprs[0];
        let p = match parse(case.ev, s) {
            Ok(p) if !p.unspec => p,
            _ => return Verdict::Skip("not-a-specified-sentence"),
        };
        let o = sut::call(case.ev, s, &case.phs[0]);
        st.digest(case, &o);
        if let crate::val::Outcome::Ok(v) = &o {
            st.inc(match v {
                Val::NI(_) => "results.integer",
                _ => "results.float",
            });
        }
        let rv = judge_ref(case.ev, &p.ast, &case.phs[0], &o, true);
        if let RefVerdict::Ok { exact: true } = rv {
            st.cover("root_operations", &p.ast.peel().tag());
        }
        to_verdict("C09", case.ev, &shape_of(&p.ast), rv, false)
    }
    fn rule(&self) -> &'static str {
        "Integer + - * on operand pairs constructed so that the exact result lands within 1500 of +-2^63, +-2^53, +-2^62, 2^31, 2^32 or 0; depth-1: + - * / % ^ over every ordered pair of the typed pool (Integer: i64 boundary pool; Float: f64 boundary pool, integral doubles such as 5.0, 2^53, +-2^63, 1e19, and NaN/inf/-0 through @), unary minus, abs, sgn, n!, floor/ceil/round/trunc (functions and brackets), superscripts, operands as literals and through @; a dense sweep of the rounding functions over fractions at several magnitudes; random typed trees of depth<=5; oracle = typed reference doing Integer steps in i128 and Float steps as IEEE doubles, expressed as the set of acceptable (variant, value) results so that canonicalising implementations are accepted where the statement leaves the variant free; a panic counts as a violation; outcomes are also compared between the overflow-checked and release builds; non-trivial = the reference gives a verdict; distinct = distinct (expression, placeholder)"
    }
    fn assumptions(&self) -> Vec<&'static str> {
        vec!["Integer^negative Integer, Integer % 0 and i64::MIN % -1 are unspecified for the value", "results of operations with a Float operand are compared numerically, variant free"]
    }
    fn floors(&self, _t: Tier) -> Vec<(String, u64)> {
        vec![("results.integer".into(), 10_000), ("results.float".into(), 10_000), ("set:root_operations".into(), 15), ("config_blocks_compared".into(), 20)]
    }
}
