//! C19 — literals denote their exact decimal value; printed results read back unchanged.

use super::Monitor;
use crate::bigint::{BigU, Rat};
use crate::core::*;
use crate::gen::*;
use crate::prng::Rng;
use crate::sut;
use crate::val::{DecV, Ev, Outcome, Val, ALL_EV};
use std::cmp::Ordering;

pub struct C19;

/// exact value of a finite double as a rational
fn rat_of_f64(x: f64) -> Rat {
    let bits = x.to_bits();
    let e = ((bits >> 52) & 0x7ff) as i64;
    let m = bits & 0x000f_ffff_ffff_ffff;
    let (sig, sh) = if e == 0 { (m, -1074i64) } else { ((1u64 << 52) | m, e - 1075) };
    let neg = bits >> 63 == 1;
    let num = crate::bigint::BigI::from_mag(neg, if sh >= 0 { BigU::from_u64(sig).shl(sh as usize) } else { BigU::from_u64(sig) });
    let den = if sh >= 0 { BigU::from_u64(1) } else { BigU::pow2((-sh) as usize) };
    Rat { num, den }
}

/// Is `x` the correctly rounded (nearest, ties to even) double of the non-negative decimal `text`?
/// Decided with big integers only, independent of str::parse.
pub fn correctly_rounded(text: &str, x: f64) -> bool {
    let v = Rat::from_literal(text);
    if x.is_nan() || x < 0.0 || (x == 0.0 && x.is_sign_negative()) {
        return false;
    }
    let mid = |a: &Rat, b: &Rat| a.add(b).mul(&Rat { num: crate::bigint::BigI::from_i128(1), den: BigU::from_u64(2) });
    let max = rat_of_f64(f64::MAX);
    // 2^1024 as the virtual successor of MAX
    let two1024 = Rat { num: crate::bigint::BigI::from_mag(false, BigU::pow2(1024)), den: BigU::from_u64(1) };
    if x.is_infinite() {
        // must be at or above the midpoint between MAX and 2^1024 (tie goes to even = 2^1024)
        return v.cmp(&mid(&max, &two1024)) != Ordering::Less;
    }
    let xr = rat_of_f64(x);
    let even = x.to_bits() & 1 == 0;
    // upper neighbour
    let up = if x == f64::MAX { two1024 } else { rat_of_f64(f64::from_bits(x.to_bits() + 1)) };
    let upper_mid = mid(&xr, &up);
    match v.cmp(&upper_mid) {
        Ordering::Greater => return false,
        Ordering::Equal if !even => return false,
        _ => {}
    }
    if x == 0.0 {
        return true;
    }
    let down = rat_of_f64(f64::from_bits(x.to_bits() - 1));
    let lower_mid = mid(&down, &xr);
    match v.cmp(&lower_mid) {
        Ordering::Less => false,
        Ordering::Equal => even,
        Ordering::Greater => true,
    }
}

fn sig_digits(text: &str) -> usize {
    let d: String = text.chars().filter(|c| *c != '.').collect();
    d.trim_start_matches('0').len()
}
fn frac_digits(text: &str) -> usize {
    text.split_once('.').map(|(_, b)| b.len()).unwrap_or(0)
}

/// standard textual form of a value, produced by the library type's own Display
pub fn display(v: &Val) -> Option<String> {
    match v {
        Val::F(x) if x.is_finite() => Some(format!("{}", x)),
        Val::I(x) if *x != i64::MIN => Some(format!("{}", x)),
        Val::D(d) => Some(format!("{}", sut::to_decimal(d))),
        Val::C(a, b) if a.is_finite() && b.is_finite() => Some(format!("{}", num_complex::Complex::new(*a, *b))),
        _ => None,
    }
}

fn interesting_literals() -> Vec<String> {
    let mut v: Vec<String> = vec![
        "9007199254740992", "9007199254740993", "9007199254740994", "9007199254740995", "9007199254740993.0000000000000000000000000001", "9007199254740992.5", "9007199254740993.5", "0.1", "0.2", "0.3", "0.30000000000000004",
        "1.7976931348623157", "2.2250738585072011", "2.2250738585072012", "2.2250738585072014", "4.9406564584124654", "9223372036854775807", "9223372036854775808", "9223372036854775809", "18446744073709551615", "18446744073709551616",
        "0.5", "0.50", "00.5", "5.", ".5", "007", "0", "0.0", "00", ".0", "0.", "1", "10", "1.10", "123456789012345678", "1234567890123456789", "12345678901234567890", "79228162514264337593543950335", "79228162514264337593543950336",
        "7.9228162514264337593543950335", "0.0000000000000000000000000001", "0.00000000000000000000000000001", "1.0000000000000000000000000001", "9999999999999999999999999999", "99999999999999999999999999999", "0.9999999999999999999999999999",
        "1.00000000000000011102230246251565404236316680908203125", "1.00000000000000011102230246251565404236316680908203124", "1.00000000000000011102230246251565404236316680908203126",
    ]
    .into_iter()
    .map(|s| s.to_string())
    .collect();
    // zero-padded literals of every length class (leading zeros are allowed)
    for k in [1usize, 2, 5, 10, 17, 18, 19, 20, 21, 30, 100, 230] {
        for body in ["0", "1", "42", "9223372036854775807", "9223372036854775808", "123.5", "0.5", ".5", "5.", "79228162514264337593543950335", "1.10"] {
            v.push(format!("{}{}", "0".repeat(k), body));
        }
        v.push(format!("1.5{}", "0".repeat(k)));
        v.push(format!("0.{}5", "0".repeat(k)));
    }
    // exact decimal expansions of boundary doubles and of their midpoints
    let fmax = format!("{}", f64::MAX);
    v.push(fmax.clone());
    // MAX + half ulp = 2^1024 - 2^970 : first literal that must read as inf
    let half_over = BigU::pow2(1024).sub(&BigU::pow2(970)).to_dec_string();
    v.push(half_over.clone());
    v.push(BigU::pow2(1024).sub(&BigU::pow2(970)).sub(&BigU::from_u64(1)).to_dec_string());
    v.push(BigU::pow2(1024).to_dec_string());
    v.push(format!("1{}", "0".repeat(308)));
    v.push(format!("2{}", "0".repeat(308)));
    v.push(format!("{}", f64::MIN_POSITIVE));
    v.push(format!("{}", 5e-324));
    v.push(format!("{}", 2.5e-324));
    v.push(format!("0.{}24703282292062327208051", "0".repeat(323)));
    v.push(format!("0.{}24703282292062327208052", "0".repeat(323)));
    v.push(format!("0.{}1", "0".repeat(400)));
    v
}

impl Monitor for C19 {
    fn id(&self) -> &'static str {
        "C19"
    }
    fn run(&self, ctx: &mut Ctx) {
        // all literals of up to 5 characters over digits and the point
        let alpha: Vec<char> = "0123456789.".chars().collect();
        let maxlen = ctx.tier.pick(4, 5);
        let mut lits: Vec<String> = vec![];
        for len in 1..=maxlen {
            for_each_seq(alpha.len(), len, &mut |idx| {
                let s: String = idx.iter().map(|i| alpha[*i]).collect();
                if s.matches('.').count() <= 1 && s != "." {
                    lits.push(s);
                }
            });
        }
        lits.extend(interesting_literals());
        // digit runs up to 250 characters with every point position (sampled positions for long runs)
        let mut rng0 = ctx.rng("runs", 0);
        for n in [6usize, 10, 15, 16, 17, 18, 19, 20, 21, 25, 27, 28, 29, 30, 40, 60, 100, 150, 200, 250] {
            for rep in 0..4 {
                let digits: String = (0..n).map(|i| if rep == 0 { '9' } else if rep == 1 && i > 0 { '0' } else { (b'0' + rng0.below(10) as u8) as char }).collect();
                let digits = if rep == 1 { format!("1{}", &digits[1..]) } else { digits };
                let positions: Vec<usize> = if n <= 30 { (0..=n).collect() } else { vec![0, 1, n / 3, n / 2, n - 1, n] };
                for p in positions {
                    let mut s = digits.clone();
                    if p < n || rep % 2 == 0 {
                        s.insert(p.min(n), '.');
                    }
                    if s != "." {
                        lits.push(s);
                    }
                }
                lits.push(digits);
            }
        }
        // random 17-significant-digit decimals of random doubles, last digits perturbed (near-halfway cases)
        let nr = ctx.tier.pick(20_000u64, 400_000);
        for i in 0..nr {
            let mut rng = ctx.rng("rand", i);
            let x = f64::from_bits(rng.next() & 0x7fff_ffff_ffff_ffff);
            if !x.is_finite() || x < 1e-290 || x > 1e290 {
                continue;
            }
            let s = format!("{}", x);
            // keep it a plain literal; perturb a late digit
            let mut cs: Vec<char> = s.chars().collect();
            if cs.len() > 400 {
                continue;
            }
            let sig_end = cs.iter().rposition(|c| c.is_ascii_digit() && *c != '0').unwrap_or(0);
            if rng.chance(1, 2) && cs[sig_end].is_ascii_digit() {
                let d = cs[sig_end].to_digit(10).unwrap();
                cs[sig_end] = char::from_digit((d + 1 + rng.below(8) as u32) % 10, 10).unwrap();
            }
            lits.push(cs.into_iter().collect());
        }
        for (k, l) in lits.iter().enumerate() {
            for ev in ALL_EV {
                if ctx.mine() {
                    let _ = k;
                    ctx.check(&Case::new(ev, "literal", l, Val::zero(ev)), &|c, st| self.judge(c, st));
                    if ev == Ev::Cpx {
                        ctx.check(&Case::new(ev, "literal-imaginary", &format!("{}i", l), Val::zero(ev)), &|c, st| self.judge(c, st));
                    }
                }
            }
        }
        // read-back of printed results
        for ev in [Ev::F64, Ev::I64, Ev::Dec, Ev::Cpx] {
            let pool = ph_pool(ev);
            for p in &pool {
                if ctx.mine() {
                    ctx.check(&Case::new(ev, "read-back", "@", *p), &|c, st| self.judge(c, st));
                }
            }
            let nb = ctx.tier.pick(40_000u64, 1_000_000);
            for i in 0..nb {
                if !ctx.mine() {
                    continue;
                }
                let mut rng = ctx.rng(&format!("rb/{}", ev.name()), i);
                let p = rand_value(ev, &mut rng);
                // the value as the result of an expression, too
                let e = *rng.pick(&["@", "@*1", "@+0", "@/3", "@*@", "1/@", "@-1"][..]);
                ctx.check(&Case::new(ev, "read-back", e, p), &|c, st| self.judge(c, st));
            }
        }
    }
    fn judge(&self, case: &Case, st: &mut Stats) -> Verdict {
        let ev = case.ev;
        let s = &case.exprs[0];
        if case.kind == "read-back" {
            let v = match sut::call(ev, s, &case.phs[0]) {
                Outcome::Ok(v) => v,
                _ => return Verdict::Skip("no-result"),
            };
            let text = match display(&v) {
                Some(t) => t,
                None => return Verdict::Skip("not-finite-or-excluded"),
            };
            return match sut::call(ev, &text, &Val::zero(ev)) {
                Outcome::Ok(w) if num_equal(&v, &w) => {
                    st.inc(&format!("read_back.{}", ev.name()));
                    st.max("max_printed_length", text.chars().count() as f64);
                    pass(true)
                }
                other => viol("printed-result-not-read-back", format!("C19|{}|printed-result-not-read-back|{}", ev.name(), other.class()), format!("{} printed as {:?} reads back as {}", v.show(), text, other.show())),
            };
        }
        let imaginary = case.kind == "literal-imaginary";
        let text = if imaginary { &s[..s.len() - 1] } else { s.as_str() };
        let has_point = text.contains('.');
        let o = sut::call(ev, s, &case.phs[0]);
        if matches!(o, Outcome::Panic(..) | Outcome::Budget(_)) {
            return Verdict::Skip("panic-or-budget");
        }
        let sigv = |class: &str| format!("C19|{}|{}|{}", ev.name(), class, if has_point { "with-point" } else { "digits-only" });
        match ev {
            Ev::F64 | Ev::Cpx => {
                let got = match &o {
                    Outcome::Ok(Val::F(x)) => *x,
                    Outcome::Ok(Val::C(a, b)) => {
                        let (val, other) = if imaginary { (*b, *a) } else { (*a, *b) };
                        if other != 0.0 {
                            return viol("wrong-literal-value", sigv("wrong-part"), format!("{} -> {}", s, o.show()));
                        }
                        val
                    }
                    _ => return viol("literal-rejected", sigv("literal-rejected"), format!("{} -> {}", s, o.show())),
                };
                if correctly_rounded(text, got) {
                    st.inc("correctly_rounded_confirmed");
                    pass(true)
                } else {
                    viol("not-correctly-rounded", sigv("not-correctly-rounded"), format!("{} -> {:?} (bits {:016x}) is not the nearest double", s, got, got.to_bits()))
                }
            }
            Ev::I64 => {
                if has_point {
                    return match o {
                        Outcome::Err(_) => pass(true),
                        _ => viol("literal-with-point-accepted", sigv("literal-with-point-accepted"), format!("{} -> {}", s, o.show())),
                    };
                }
                match (BigU::from_dec_str(text).to_u128(), &o) {
                    (Some(n), Outcome::Ok(Val::I(g))) if n <= i64::MAX as u128 => {
                        if *g as u128 == n && *g >= 0 {
                            st.inc("exact_integer_confirmed");
                            pass(true)
                        } else {
                            viol("wrong-literal-value", sigv("wrong-literal-value"), format!("{} -> {}", s, g))
                        }
                    }
                    (Some(n), Outcome::Err(m)) if n <= i64::MAX as u128 => viol("literal-rejected", sigv("literal-rejected"), format!("{} -> Err({})", s, m)),
                    _ => Verdict::Skip("beyond-i64"),
                }
            }
            Ev::Num => {
                if has_point {
                    match &o {
                        Outcome::Ok(Val::NF(x)) => {
                            if correctly_rounded(text, *x) {
                                st.inc("correctly_rounded_confirmed");
                                pass(true)
                            } else {
                                viol("not-correctly-rounded", sigv("not-correctly-rounded"), format!("{} -> {:?}", s, x))
                            }
                        }
                        _ => viol("wrong-variant", sigv("wrong-variant"), format!("a literal with a point must be a Float: {} -> {}", s, o.show())),
                    }
                } else {
                    match (BigU::from_dec_str(text).to_u128(), &o) {
                        (Some(n), Outcome::Ok(Val::NI(g))) if n <= i64::MAX as u128 => {
                            if *g as u128 == n && *g >= 0 {
                                st.inc("exact_integer_confirmed");
                                pass(true)
                            } else {
                                viol("wrong-literal-value", sigv("wrong-literal-value"), format!("{} -> {}", s, g))
                            }
                        }
                        (Some(n), _) if n <= i64::MAX as u128 => viol("wrong-variant", sigv("wrong-variant"), format!("{} -> {}", s, o.show())),
                        _ => Verdict::Skip("beyond-i64"),
                    }
                }
            }
            Ev::Dec => {
                if sig_digits(text) > 28 || frac_digits(text) > 28 {
                    return Verdict::Skip("beyond-28-digits");
                }
                match &o {
                    Outcome::Ok(Val::D(d)) => {
                        if Rat::from_decimal(d.neg, d.mant, d.scale).eq(&Rat::from_literal(text)) {
                            st.inc("exact_decimal_confirmed");
                            pass(true)
                        } else {
                            viol("wrong-literal-value", sigv("wrong-literal-value"), format!("{} -> {}", s, o.show()))
                        }
                    }
                    _ => viol("literal-rejected", sigv("literal-rejected"), format!("{} -> {}", s, o.show())),
                }
            }
        }
    }
    fn rule(&self) -> &'static str {
        "literals: every string of up to 4 (quick) / 5 (thorough) characters over digits and the point that has the literal form; digit runs of 6..250 characters (all nines, 1 followed by zeros, random digits) with the point at every position (sampled for long runs); halfway cases around 2^53, 2^63, 2^64, the 17-digit neighbours of DBL_MIN and the smallest subnormal, f64::MAX, 2^1024-2^970 and its predecessor, Decimal::MAX and its neighbours; 17-significant-digit expansions of random doubles with a late digit perturbed; each literal in all five evaluators (and with an `i` suffix in eval_complex): the double must be the correctly rounded one, decided with big integers (|N/10^k - x| <= 1/2 ulp, ties to even) independently of str::parse, the integer / decimal must be exact, the Number variant must follow the presence of a point; read-back: the library type's own Display of placeholder-pool values, random bit patterns and results of small expressions is fed back to the same evaluator and must give the same value; non-trivial = literal judged / value read back; distinct = distinct case"
    }
    fn assumptions(&self) -> Vec<&'static str> {
        vec!["decimal literals are judged only with at most 28 significant and 28 fractional digits; integer literals beyond i64::MAX are C01's", "read-back compares numerically (a printed -0 reads back as a zero)"]
    }
    fn floors(&self, _t: Tier) -> Vec<(String, u64)> {
        vec![("correctly_rounded_confirmed".into(), 20_000), ("exact_integer_confirmed".into(), 5_000), ("exact_decimal_confirmed".into(), 5_000), ("read_back.f64".into(), 5_000), ("read_back.i64".into(), 5_000), ("read_back.decimal".into(), 5_000), ("read_back.complex".into(), 2_000)]
    }
}

fn num_equal(a: &Val, b: &Val) -> bool {
    match (a, b) {
        (Val::F(x), Val::F(y)) => x == y,
        (Val::I(x), Val::I(y)) => x == y,
        (Val::D(x), Val::D(y)) => Rat::from_decimal(x.neg, x.mant, x.scale).eq(&Rat::from_decimal(y.neg, y.mant, y.scale)),
        (Val::C(a, b), Val::C(c, d)) => a == c && b == d,
        _ => false,
    }
}

fn rand_value(ev: Ev, rng: &mut Rng) -> Val {
    let f = |rng: &mut Rng| loop {
        let x = f64::from_bits(rng.next());
        if x.is_finite() {
            // a third of the draws at moderate magnitude
            return if rng.chance(1, 3) { (x % 1e6) / 7.0 } else { x };
        }
    };
    match ev {
        Ev::F64 => Val::F(f(rng)),
        Ev::I64 => Val::I((rng.next() as i64) >> rng.below(64)),
        Ev::Cpx => Val::C(f(rng), f(rng)),
        Ev::Dec => {
            let digits = 1 + rng.below(29);
            let mut m: u128 = 0;
            for _ in 0..digits {
                m = m * 10 + rng.below(10) as u128;
            }
            Val::D(DecV { neg: rng.chance(1, 2), mant: m.min((1u128 << 96) - 1), scale: rng.below(29) as u32 })
        }
        Ev::Num => Val::NI(0),
    }
}
