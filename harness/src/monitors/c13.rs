//! C13 — equivalent spellings evaluate identically (metamorphic, no oracle).

use super::Monitor;
use crate::core::*;
use crate::gen::*;
use crate::prng::Rng;
use crate::sut;
use crate::syntax::*;
use crate::val::{Ev, Outcome, Val, ALL_EV};

pub struct C13;

/// Apply `f` to the k-th node (pre-order) for which it returns Some; None if there is no such node.
pub fn map_nth(ast: &Ast, k: usize, counter: &mut usize, f: &dyn Fn(&Ast) -> Option<Ast>) -> Ast {
    if let Some(new) = f(ast) {
        let me = *counter;
        *counter += 1;
        if me == k {
            return new;
        }
    }
    let r = |a: &Ast, c: &mut usize| Box::new(map_nth(a, k, c, f));
    match ast {
        Ast::Neg(a) => Ast::Neg(r(a, counter)),
        Ast::Pos(a) => Ast::Pos(r(a, counter)),
        Ast::Bin(op, a, b) => {
            let a2 = r(a, counter);
            let b2 = r(b, counter);
            Ast::Bin(*op, a2, b2)
        }
        Ast::IMul(a, b) => {
            let a2 = r(a, counter);
            let b2 = r(b, counter);
            Ast::IMul(a2, b2)
        }
        Ast::Sup(a, d) => Ast::Sup(r(a, counter), d.clone()),
        Ast::Fact(a) => Ast::Fact(r(a, counter)),
        Ast::Deg(a) => Ast::Deg(r(a, counter)),
        Ast::Rad(a) => Ast::Rad(r(a, counter)),
        Ast::Call(fu, sp, args) => Ast::Call(*fu, sp, args.iter().map(|x| map_nth(x, k, counter, f)).collect()),
        Ast::Group(b, a) => Ast::Group(*b, r(a, counter)),
        leaf => leaf.clone(),
    }
}

pub fn count_matching(ast: &Ast, f: &dyn Fn(&Ast) -> Option<Ast>) -> usize {
    (if f(ast).is_some() { 1 } else { 0 }) + ast.children().iter().map(|c| count_matching(c, f)).sum::<usize>()
}

fn grp(a: Ast) -> Box<Ast> {
    Box::new(Ast::Group(Br::Round, Box::new(a)))
}

/// the node-level rewrites of the statement, by name
pub fn node_rewrite(kind: &str) -> Box<dyn Fn(&Ast) -> Option<Ast>> {
    match kind {
        "floor-bracket" => Box::new(|a| match a {
            Ast::Call(Func::Floor, _, args) => Some(Ast::Group(Br::Floor, Box::new(args[0].clone()))),
            Ast::Group(Br::Floor, x) => Some(Ast::Call(Func::Floor, "floor", vec![(**x).clone()])),
            _ => None,
        }),
        "ceil-bracket" => Box::new(|a| match a {
            Ast::Call(Func::Ceil, _, args) => Some(Ast::Group(Br::Ceil, Box::new(args[0].clone()))),
            Ast::Group(Br::Ceil, x) => Some(Ast::Call(Func::Ceil, "ceil", vec![(**x).clone()])),
            _ => None,
        }),
        "mod-operator" => Box::new(|a| match a {
            Ast::Call(Func::Mod, _, args) => Some(Ast::Group(Br::Round, Box::new(Ast::Bin(Op::Mod, grp(args[0].clone()), grp(args[1].clone()))))),
            _ => None,
        }),
        "pow-operator" => Box::new(|a| match a {
            Ast::Call(Func::Pow, _, args) => Some(Ast::Group(Br::Round, Box::new(Ast::Bin(Op::Pow, grp(args[0].clone()), grp(args[1].clone()))))),
            _ => None,
        }),
        "redundant-brackets" => Box::new(|a| Some(Ast::Group(Br::Round, Box::new(a.clone())))),
        _ => Box::new(|_| None),
    }
}

fn alias_swap(t: &Tok, rng: &mut Rng) -> Option<Tok> {
    match t {
        Tok::Pi(u) => Some(Tok::Pi(!*u)),
        Tok::Fn(f, sp) => {
            let all = f.spellings();
            if all.len() < 2 {
                return None;
            }
            let others: Vec<&'static str> = all.into_iter().filter(|s| s != sp).collect();
            Some(Tok::Fn(*f, others[rng.below(others.len())]))
        }
        _ => None,
    }
}

fn is_binary(t: &Tok) -> bool {
    matches!(t, Tok::Plus | Tok::Minus | Tok::Star | Tok::Slash | Tok::Percent | Tok::Caret | Tok::Amp | Tok::Bar | Tok::Shl | Tok::Shr)
}

/// positions where an operand starts (a prefix + may be inserted)
fn operand_starts(toks: &[Tok]) -> Vec<usize> {
    let mut v = vec![];
    for i in 0..toks.len() {
        let starts = matches!(toks[i], Tok::Num(_) | Tok::ImNum(_) | Tok::At | Tok::Pi(_) | Tok::E | Tok::LPar | Tok::LFloor | Tok::LCeil | Tok::Fn(..) | Tok::Minus | Tok::Plus);
        if !starts {
            continue;
        }
        let prev_ok = if i == 0 {
            true
        } else {
            let p = &toks[i - 1];
            // the '(' that opens a call's argument list, brackets, commas, operators and signs
            is_binary(p) || matches!(p, Tok::LPar | Tok::LFloor | Tok::LCeil | Tok::Comma)
        };
        // a binary +/- is itself not the start of an operand
        let is_binary_sign = matches!(toks[i], Tok::Minus | Tok::Plus) && i > 0 && !(is_binary(&toks[i - 1]) || matches!(toks[i - 1], Tok::LPar | Tok::LFloor | Tok::LCeil | Tok::Comma));
        if prev_ok && !is_binary_sign {
            v.push(i);
        }
    }
    v
}

/// sites where `^N` may be written as a superscript run (and back), per the statement's restriction
fn sup_sites(toks: &[Tok]) -> Vec<(usize, bool)> {
    let follower_ok = |t: Option<&Tok>| match t {
        None => true,
        Some(t) => is_binary(t) || matches!(t, Tok::Deg | Tok::Rad | Tok::RPar | Tok::RFloor | Tok::RCeil | Tok::Comma),
    };
    let mut v = vec![];
    for i in 0..toks.len() {
        match &toks[i] {
            Tok::Caret => {
                if let Some(Tok::Num(d)) = toks.get(i + 1) {
                    let prev_sup = i > 0 && matches!(toks[i - 1], Tok::Sup(_));
                    if d.chars().all(|c| c.is_ascii_digit()) && follower_ok(toks.get(i + 2)) && !prev_sup && !matches!(toks.get(i + 2), Some(Tok::Sup(_))) {
                        v.push((i, true));
                    }
                }
            }
            Tok::Sup(_) => {
                let prev_sup = i > 0 && matches!(toks[i - 1], Tok::Sup(_));
                if i > 0 && follower_ok(toks.get(i + 1)) && !prev_sup && !matches!(toks.get(i + 1), Some(Tok::Sup(_))) {
                    v.push((i, false));
                }
            }
            _ => {}
        }
    }
    v
}

/// The rewrites of the statement applied to one input: white space anywhere, aliases on anything
/// that lexes and, for a well-formed input (`ast` = its tree), one site of every structural rewrite.
pub fn variants(ev: Ev, s: &str, ast: Option<&Ast>, rng: &mut Rng) -> Vec<(&'static str, String)> {
    let mut out: Vec<(&'static str, String)> = vec![];
    let malformed = ast.is_none();
    // whitespace: insert 1..3 White_Space characters anywhere (also inside names and numbers)
    {
        let mut cs: Vec<char> = s.chars().collect();
        for _ in 0..1 + rng.below(3) {
            let pos = rng.below(cs.len() + 1);
            cs.insert(pos, *rng.pick(&WHITE_SPACE));
        }
        out.push(("whitespace", cs.into_iter().collect()));
        // and deletion of what whitespace the input has
        out.push(("whitespace", strip_ws(s)));
    }
    // aliases, on any input that lexes
    if let Ok(toks) = lex(ev, s) {
        let sites: Vec<usize> = (0..toks.len()).filter(|k| alias_swap(&toks[*k], &mut Rng::new(1)).is_some()).collect();
        if !sites.is_empty() {
            let mut t = toks.clone();
            if rng.chance(1, 2) {
                let k = *rng.pick(&sites);
                t[k] = alias_swap(&toks[k], rng).unwrap();
            } else {
                for k in &sites {
                    t[*k] = alias_swap(&toks[*k], rng).unwrap();
                }
            }
            out.push(("alias", render_tokens(&t)));
        }
        if !malformed {
            // prefix plus
            let st = operand_starts(&toks);
            if !st.is_empty() {
                let k = *rng.pick(&st);
                let mut t = toks.clone();
                t.insert(k, Tok::Plus);
                out.push(("prefix-plus", render_tokens(&t)));
            }
            // superscript <-> ^N
            let ss = sup_sites(&toks);
            if !ss.is_empty() {
                let (k, to_sup) = *rng.pick(&ss);
                let mut t = toks.clone();
                if to_sup {
                    if let Tok::Num(d) = &toks[k + 1] {
                        t.splice(k..k + 2, [Tok::Sup(d.clone())]);
                    }
                } else if let Tok::Sup(d) = &toks[k] {
                    t.splice(k..k + 1, [Tok::Caret, Tok::Num(d.clone())]);
                }
                out.push(("superscript", render_tokens(&t)));
            }
        }
    }
    if let Some(ast) = ast {
        for kind in ["floor-bracket", "ceil-bracket", "mod-operator", "pow-operator", "redundant-brackets"] {
            let f = node_rewrite(kind);
            let cnt = count_matching(ast, f.as_ref());
            if cnt == 0 {
                continue;
            }
            let k = rng.below(cnt);
            let t = map_nth(ast, k, &mut 0, f.as_ref());
            out.push((kind, t.render()));
        }
    }
    out
}

/// Every site of every structural rewrite of a well-formed input (where `variants` picks one at random).
pub fn all_sites(ev: Ev, s: &str, ast: &Ast) -> Vec<(&'static str, String)> {
    let mut out: Vec<(&'static str, String)> = vec![];
    for kind in ["floor-bracket", "ceil-bracket", "mod-operator", "pow-operator", "redundant-brackets"] {
        let f = node_rewrite(kind);
        for k in 0..count_matching(ast, f.as_ref()) {
            out.push((kind, map_nth(ast, k, &mut 0, f.as_ref()).render()));
        }
    }
    if let Ok(toks) = lex(ev, s) {
        for k in operand_starts(&toks) {
            let mut t = toks.clone();
            t.insert(k, Tok::Plus);
            out.push(("prefix-plus", render_tokens(&t)));
        }
        for (k, to_sup) in sup_sites(&toks) {
            let mut t = toks.clone();
            if to_sup {
                if let Tok::Num(d) = &toks[k + 1] {
                    t.splice(k..k + 2, [Tok::Sup(d.clone())]);
                }
            } else if let Tok::Sup(d) = &toks[k] {
                t.splice(k..k + 1, [Tok::Caret, Tok::Num(d.clone())]);
            }
            out.push(("superscript", render_tokens(&t)));
        }
    }
    out
}

impl Monitor for C13 {
    fn id(&self) -> &'static str {
        "C13"
    }
    fn run(&self, ctx: &mut Ctx) {
        for ev in ALL_EV {
            let phs = ph_pool(ev);
            let leaf = hostile_leaf(ev);
            let cfg = GenCfg::full(ev, &leaf);
            let n = ctx.tier.pick(40_000u64, 700_000);
            for i in 0..n {
                if !ctx.mine() {
                    continue;
                }
                let mut rng = ctx.rng(&format!("input/{}", ev.name()), i);
                let depth = 1 + rng.below(5);
                let (ast, mut s) = gen_expr(&cfg, &mut rng, depth);
                let malformed = rng.chance(1, 3);
                if malformed {
                    s = mutate(&s, &mut rng, ev);
                }
                let ph = *rng.pick(&phs);
                for (kind, t) in variants(ev, &s, if malformed { None } else { Some(&ast) }, &mut rng) {
                    if t != s {
                        ctx.check(&Case::pair(ev, kind, &s, ph, &t, ph), &|c, st| self.judge(c, st));
                    }
                }
            }
            // short templates around `@` - sign runs, signs under and over every operator, postfix
            // operators, calls - with the extreme values of the type as placeholder, rewritten at every
            // site of every structural rewrite: where the value is i64::MIN, -0.0, the largest Decimal, a
            // NaN ..., an operation that is the identity for every other value is not (seeded change
            // C13-r9: runs of prefix signs collapsed by parity, so `--@` kept i64::MIN where `-(-@)` fails)
            {
                let mut templates: Vec<String> = vec!["--@", "-+-@", "---@", "+--@", "1+--@", "2*--@", "--@*1", "-(-@)", "--(@)", "abs(--@)", "--@+1", "0--@", "0-@", "-@", "--@^1", "-@^2", "(-@)^2", "1-@", "@-1", "@*1", "@/1", "@+0", "0+@", "-(@+1)", "-(@-1)", "-(0-@)", "abs(@)", "abs(-@)", "-abs(@)", "@^1", "@²", "-@²", "sgn(-@)", "max(-@,--@)", "min(@,-@)", "pow(-@,1)", "pow(--@,1)"].into_iter().map(String::from).collect();
                if has_fact_mod(ev) {
                    templates.extend(["--@%7", "-@%7", "mod(--@,7)", "mod(-@,7)", "-@!", "(-@)!"].into_iter().map(String::from));
                }
                if has_floorceil_brackets(ev) {
                    templates.extend(["floor(--@)", "ceil(-@)", "-floor(@)", "⌊--@⌋"].into_iter().map(String::from));
                }
                if has_bitops(ev) {
                    templates.extend(["--@>>1", "-@<<1", "--@&-1", "--@|0"].into_iter().map(String::from));
                }
                let mut phs2 = super::c14::extreme_placeholders(ev);
                phs2.extend(phs.iter().take(6).copied());
                for t in &templates {
                    let ast = match parse(ev, t) {
                        Ok(p) if !p.unspec => p.ast,
                        _ => continue,
                    };
                    let sites = all_sites(ev, t, &ast);
                    for ph in &phs2 {
                        for (kind, u) in &sites {
                            if u != t && ctx.mine() {
                                ctx.check(&Case::pair(ev, kind, t, *ph, u, *ph).with_extra("template"), &|c, st| {
                                    let v = self.judge(c, st);
                                    if let Verdict::Pass { .. } = v {
                                        st.inc("template_sites_equal");
                                    }
                                    v
                                });
                            }
                        }
                    }
                }
            }
            // inputs that are one bare literal, of every length from 1 to 45 digits and several digit
            // patterns (trailing zeros, leading zeros, all nines, random) with the point in sampled positions:
            // an entry point that special-cases whole-input literals answers differently from the same
            // literal in brackets, behind a prefix + or next to a blank (seeded change C13-r9b, written for
            // C19: a bare 30-character literal rejected by eval_decimal)
            {
                let z = Val::zero(ev);
                let mut rr = ctx.rng(&format!("bare-literals/{}", ev.name()), 0);
                for n in 1..=45usize {
                    let pats: Vec<String> = vec![
                        "5".repeat(n),
                        format!("8{}", "0".repeat(n - 1)),
                        format!("{}{}", "0".repeat(n / 2), "7".repeat(n - n / 2)),
                        (0..n).map(|_| char::from(b'0' + rr.below(10) as u8)).collect(),
                        format!("85{}", "0".repeat(n.saturating_sub(2))).chars().take(n).collect(),
                    ];
                    for d in pats {
                        let mut positions: Vec<usize> = vec![0, 1, n / 2, n.saturating_sub(1), n];
                        positions.extend([2usize, 4].iter().filter(|p| **p < n));
                        positions.sort();
                        positions.dedup();
                        for p in positions {
                            let mut lit = d.clone();
                            lit.insert(p.min(n), '.');
                            if ev == Ev::I64 {
                                lit = d.clone();
                            }
                            for (kind, t) in [("redundant-brackets", format!("({})", lit)), ("prefix-plus", format!("+{}", lit)), ("whitespace", format!(" {}", lit)), ("whitespace", format!("{}\u{a0}", lit))] {
                                if ctx.mine() {
                                    ctx.check(&Case::pair(ev, kind, &lit, z, &t, z).with_extra("bare literal"), &|c, st| {
                                        let v = self.judge(c, st);
                                        if let Verdict::Pass { .. } = v {
                                            st.inc("bare_literals_equal");
                                        }
                                        v
                                    });
                                }
                            }
                        }
                    }
                }
            }
            // the same rewrite applied many times over: k redundant bracket pairs, k prefix signs, k
            // nested floor( ) against k nested ⌊ ⌋, k nested mod( , ) against k nested (( )%( )), k
            // white-space characters; counts around the powers of two (repetitions())
            {
                let z = Val::zero(ev);
                let cap = rep_cap(&ctx.config);
                let reps = repetitions(ev, cap);
                let by = |fam: &str| -> Vec<(usize, String)> { reps.iter().filter(|(f, _, _)| f == fam).map(|(_, k, s)| (*k, s.clone())).collect() };
                let mut pairs: Vec<(&str, String, String, usize)> = vec![];
                for (k, s) in by("nest ( )") {
                    pairs.push(("redundant-brackets", "7".into(), s.clone(), k));
                    pairs.push(("redundant-brackets", "1+7*2".into(), format!("1+{}*2", s), k));
                    pairs.push(("redundant-brackets", "abs(7)".into(), format!("abs({})", s), k));
                    pairs.push(("prefix-plus", "7".into(), format!("{}7", "+".repeat(k)), k));
                    pairs.push(("whitespace", "1+7".into(), format!("1{}+{}7", " ".repeat(k), "\u{2003}".repeat(k)), k));
                }
                let fl: std::collections::HashMap<usize, String> = by("nest floor( )").into_iter().collect();
                for (k, s) in by("nest ⌊ ⌋") {
                    if let Some(f) = fl.get(&k) {
                        pairs.push(("floor-bracket", f.clone(), s.clone(), k));
                    }
                    let c = s.replace('⌊', "ceil(").replace('⌋', ")");
                    pairs.push(("ceil-bracket", c, s.replace('⌊', "⌈").replace('⌋', "⌉"), k));
                }
                let md: std::collections::HashMap<usize, String> = by("nest mod( ,1000)").into_iter().collect();
                for (k, s) in by("nest (( )%(1000))") {
                    if let Some(m) = md.get(&k) {
                        pairs.push(("mod-operator", m.clone(), s.clone(), k));
                    }
                }
                // white space by the tens of kilobytes (seeded change C13-r11: a 64 KiB limit on the raw text)
                pairs.push(("whitespace", "1+7".into(), format!("1{}+7", " ".repeat(70_000)), 70_000));
                pairs.push(("whitespace", "2*3".into(), format!("2*{}3", "\u{3000}".repeat(30_000)), 30_000));
                pairs.push(("whitespace", "abs(4)".into(), format!("{}abs(4){}", "\n\t ".repeat(25_000), " ".repeat(200)), 75_000));
                for (kind, a, b, k) in pairs {
                    if ctx.mine() {
                        ctx.check(&Case::pair(ev, kind, &a, z, &b, z).with_extra(&format!("x{}", k)), &|c, st| {
                            let v = self.judge(c, st);
                            if let Verdict::Pass { .. } = v {
                                st.inc("repeated_rewrites_equal");
                                st.max("max_rewrite_repetitions", k as f64);
                            }
                            v
                        });
                    }
                }
            }
            // every White_Space character at every position of short inputs
            let shorts: Vec<&str> = match ev {
                Ev::I64 => vec!["12+3", "abs(-4)", "2<<3", "min(1,2)", "7!", "2²", "1 2", "sgn(5)", "2^10"],
                Ev::Cpx => vec!["1.5+2i", "sqrt(4)", "pi*e", "2i(3)", "3rad", "exp2(1)", "arsinh(1)"],
                Ev::Dec => vec!["1.5+2", "floor(2.5)", "⌈1.2⌉", "pi*e", "lambert_w(1)", "truncate(2.7)", "median(1,2)", "signum(3)"],
                _ => vec!["1.5+2", "floor(2.5)", "⌈1.2⌉", "pi*e", "lambert_w(1)", "truncate(2.7)", "median(1,2)", "signum(3)", "3rad", "artanh(0.5)", "atan2(1,2)", "2.5!"],
            };
            let ws_set: Vec<char> = if ctx.tier == Tier::Quick { vec![' ', '\t', '\n', '\u{a0}', '\u{2003}', '\u{3000}', '\u{85}', '\u{2028}'] } else { WHITE_SPACE.to_vec() };
            for s in shorts {
                let cs: Vec<char> = s.chars().collect();
                for pos in 0..=cs.len() {
                    for w in &ws_set {
                        if ctx.mine() {
                            let mut t = cs.clone();
                            t.insert(pos, *w);
                            let t: String = t.into_iter().collect();
                            let z = Val::zero(ev);
                            ctx.check(&Case::pair(ev, "whitespace", s, z, &t, z).with_extra(&format!("U+{:04X}@{}", *w as u32, pos)), &|c, st| self.judge(c, st));
                        }
                    }
                }
            }
        }
    }
    fn judge(&self, case: &Case, st: &mut Stats) -> Verdict {
        let ev = case.ev;
        let (s, t) = (&case.exprs[0], &case.exprs[1]);
        // structural rewrites are only claimed for well-formed inputs, and only when the rewritten text
        // is what the statement describes (same tree up to the rewrite): checked by re-parsing
        let structural = !matches!(case.kind.as_str(), "whitespace" | "alias");
        if structural {
            match (parse(ev, s), parse(ev, t)) {
                (Ok(a), Ok(b)) if !a.unspec && !b.unspec => {}
                _ => return Verdict::Skip("rewrite-not-applicable"),
            }
        }
        let a = sut::call(ev, s, &case.phs[0]);
        let b = sut::call(ev, t, &case.phs[1]);
        if matches!(a, Outcome::Panic(..) | Outcome::Budget(_)) || matches!(b, Outcome::Panic(..) | Outcome::Budget(_)) {
            // a panic on one spelling only is still a difference in outcome class
            if a.class() != b.class() && !matches!(a, Outcome::Budget(_)) && !matches!(b, Outcome::Budget(_)) {
                return viol("outcome-class-differs", format!("C13|{}|outcome-class-differs|{}", ev.name(), case.kind), format!("{} -> {} but {} -> {}", s, a.show(), t, b.show()));
            }
            return Verdict::Skip("panic-or-budget");
        }
        if a.same(&b) {
            st.inc(&format!("equal.{}.{}", case.kind, if a.is_ok() { "ok" } else { "err" }));
            st.cover("rewrites", &format!("{}/{}", ev.name(), case.kind));
            if case.kind == "whitespace" && case.extra.starts_with("U+") {
                st.cover("whitespace_characters", case.extra.split('@').next().unwrap_or(""));
            }
            pass(true)
        } else {
            viol("spelling-changes-outcome", format!("C13|{}|spelling-changes-outcome|{}", ev.name(), case.kind), format!("{} -> {} but {} -> {}", s, a.show(), t, b.show()))
        }
    }
    fn rule(&self) -> &'static str {
        "inputs = random well-formed trees (depth<=5, hostile literal pool) and, one in three, 1-2-edit mutations of them (malformed inputs), with hostile placeholders; for each input: 1-3 White_Space characters inserted at random positions (also inside names and numbers) and existing whitespace deleted; alias swaps on every input that lexes (pi/π, sgn/sign/signum, med/median, trunc/truncate, w/lambert_w, a[r]sinh, a[r]cosh, a[r]tanh; one site or all); for well-formed inputs one random applicable site of each structural rewrite (floor()/⌊⌋, ceil()/⌈⌉, mod()/((a)%(b)), pow()/((a)^(b)), ^N/superscript under the statement's restriction, prefix +, redundant brackets around a subexpression); plus every White_Space character at every position of a family of short inputs; the two spellings must have the same outcome class and the same Ok bits; non-trivial = the two texts differ and both were evaluated; distinct = distinct pair"
    }
    fn assumptions(&self) -> Vec<&'static str> {
        vec!["error messages are not compared", "a structural rewrite is applied only when the rewritten text parses (reference grammar) to a specified sentence"]
    }
    fn floors(&self, t: Tier) -> Vec<(String, u64)> {
        vec![
            ("equal.whitespace.ok".into(), 5_000),
            ("equal.whitespace.err".into(), 1_000),
            ("equal.alias.ok".into(), 2_000),
            ("equal.redundant-brackets.ok".into(), 5_000),
            ("equal.prefix-plus.ok".into(), 5_000),
            ("equal.superscript.ok".into(), 500),
            ("equal.floor-bracket.ok".into(), 300),
            ("equal.mod-operator.ok".into(), 100),
            ("equal.pow-operator.ok".into(), 100),
            ("set:whitespace_characters".into(), t.pick(8, 25)),
        ]
    }
}
