//! C02 — every evaluation terminates within work linear in the input length.

use super::workload::{hostile, Sizes};
use super::Monitor;
use crate::core::*;
use crate::sut;
use crate::val::{Ev, Outcome, ALL_EV};

pub struct C02;

impl Monitor for C02 {
    fn id(&self) -> &'static str {
        "C02"
    }
    fn configs(&self, t: Tier) -> Vec<&'static str> {
        let _ = t;
        vec!["release", "checked"]
    }
    fn run(&self, ctx: &mut Ctx) {
        let sz = match ctx.tier {
            Tier::Quick => Sizes { w1_full: 2, w1_class: 3, w2: 2, w3: 40_000, w4: 20_000, bombs: true },
            Tier::Thorough => Sizes { w1_full: 3, w1_class: 4, w2: 3, w3: 800_000, w4: 400_000, bombs: true },
        };
        for ev in ALL_EV {
            hostile(ctx, ev, &sz, "", &mut |ctx, case| {
                ctx.check(&case, &|c, st| self.judge(c, st));
            });
        }
        // Long inputs. The bound is linear in the length, so work that grows faster only shows once the
        // input is long enough for the growth to overtake the generous constant (256 steps per
        // character): argument lists of 500, 2000 and 8000 members in ascending, descending, constant,
        // zigzag and shuffled order (seeded change C02-r9: the median kept in order by insertion, n^2/2
        // steps for sorted data), the repetition workload (nests, chains and lists of up to 1000
        // constructs), digit runs, white space and sign runs of thousands of characters.
        for ev in ALL_EV {
            let z = crate::val::Val::zero(ev);
            let mut longs: Vec<(String, String)> = vec![];
            if crate::syntax::Func::Max.available(ev) {
                let mut names = vec!["min", "max", "avg", "med", "median"];
                if ev == Ev::I64 {
                    names.extend(["gcd", "lcm"]);
                }
                let mut rng = ctx.rng(&format!("long-lists/{}", ev.name()), 0);
                for name in names {
                    for n in [500usize, 2000, 8000] {
                        for wide in [false, true] {
                            let val = |k: usize| -> String {
                                if name == "lcm" {
                                    ((k % 6) + 1).to_string()
                                } else if wide {
                                    if ev == Ev::I64 { format!("{}", 100_000 + k) } else { format!("{}.5", 100_000 + k) }
                                } else {
                                    ((k * 10 / n) % 10).to_string()
                                }
                            };
                            let asc: Vec<String> = (0..n).map(val).collect();
                            let mut shuffled = asc.clone();
                            rng.shuffle(&mut shuffled);
                            let orders: Vec<(&str, Vec<String>)> = vec![
                                ("ascending", asc.clone()),
                                ("descending", asc.iter().rev().cloned().collect()),
                                ("constant", vec![val(n / 2); n]),
                                ("zigzag", (0..n).map(|k| if k % 2 == 0 { val(k / 2) } else { val(n - 1 - k / 2) }).collect()),
                                ("shuffled", shuffled),
                            ];
                            for (o, list) in orders {
                                longs.push((format!("{} of {} {} {}", name, n, o, if wide { "six-digit values" } else { "one-digit values" }), format!("{}({})", name, list.join(","))));
                            }
                        }
                    }
                }
            }
            for (fam, k, t) in crate::gen::repetitions(ev, crate::gen::rep_cap(&ctx.config)) {
                if k >= 100 {
                    longs.push((format!("{} x{}", fam, k), t));
                }
            }
            for n in [1000usize, 10_000, 60_000] {
                longs.push((format!("{} digits", n), "7".repeat(n)));
                longs.push((format!("{} blanks", n), format!("1{}+1", " ".repeat(n))));
                longs.push((format!("{} fraction digits", n), format!("0.{}", "3".repeat(n))));
            }
            for n in [300usize, 400] {
                longs.push((format!("{} prefix signs", n), format!("{}1", "-".repeat(n))));
                longs.push((format!("{} superscript digits", n), format!("2{}", "⁰".repeat(n))));
            }
            for (fam, t) in longs {
                if ctx.mine() {
                    let nchars = t.chars().count();
                    ctx.check(&Case::new(ev, "long", &t, z).with_extra(&fam), &|c, st| {
                        let v = self.judge(c, st);
                        if let Verdict::Pass { .. } = v {
                            st.inc("long_inputs_within_budget");
                            st.max("max_input_chars", nchars as f64);
                        }
                        v
                    });
                }
            }
        }
    }
    fn judge(&self, case: &Case, st: &mut Stats) -> Verdict {
        let s = &case.exprs[0];
        let len = s.chars().count();
        let budget = sut::c02_budget(len);
        let r = sut::call_with(case.ev, s, &case.phs[0], budget, 0);
        st.max("max_steps", r.steps as f64);
        st.max("max_steps_over_budget_ratio", r.steps as f64 / budget as f64);
        st.max(&format!("max_steps_per_char.{}", case.ev.name()), r.steps as f64 / len.max(1) as f64);
        let bucket = match r.steps {
            0..=15 => "0-15",
            16..=63 => "16-63",
            64..=255 => "64-255",
            256..=1023 => "256-1023",
            1024..=4095 => "1024-4095",
            _ => "4096+",
        };
        st.inc(&format!("steps_histogram.{}", bucket));
        match r.outcome {
            Outcome::Budget(n) => {
                // which construct: first function name or '!' in the input
                let construct = construct_of(s);
                st.inc("budget_trips");
                viol(
                    "step-budget",
                    format!("C02|{}|step-budget|{}", case.ev.name(), construct),
                    format!("used more than {} steps (4096+256*{}) ; stopped at {}", budget, len, n),
                )
            }
            Outcome::Panic(..) => Verdict::Skip("panic-attributed-to-C01"),
            Outcome::Ok(_) => pass(true),
            Outcome::Err(_) => pass(r.steps >= 8 && r.steps as usize > len),
        }
    }
    fn rule(&self) -> &'static str {
        "cases as in C01 (W5 bombs over every looping construct x extreme/zero/negative/base-1/non-finite arguments, exhaustive short token sequences, random trees, mutations); each call is armed with a step budget of exactly 4096+256*len through the verif_hooks counter and is a violation when the counter passes it; loops that carry no counter are bounded by two backstops: every magnitude bomb, every construct repeated up to 64/128/256 characters and large random trees run under cachegrind (`sanitizers` entry of this file) and a call executing more than 10^7 + 10^6*chars instructions is a violation (deterministic, no clock), and a worker-side CPU-time watchdog (60 CPU-seconds for one call) catches what is slower still; non-trivial = returned Ok, or returned Err after at least 8 counted steps and more steps than input characters; distinct = distinct (evaluator, input, placeholder)"
    }
    fn assumptions(&self) -> Vec<&'static str> {
        vec![
            "steps are the tick() calls of the verif_hooks feature: tokenizer next and digit loops, parser functions and loops, eval entry and every evaluator loop body; loops inside dependencies (rust_decimal, std) are bounded only by the CPU-time watchdog",
            "len is the number of characters of the input as passed (before whitespace removal)",
        ]
    }
    fn floors(&self, _t: Tier) -> Vec<(String, u64)> {
        vec![("passed".into(), 10_000), ("long_inputs_within_budget".into(), 1_000)]
    }
}

pub fn construct_of(s: &str) -> String {
    for name in ["ilog", "lambert_w", "w(", "gcd", "lcm", "min", "max", "avg", "med"] {
        if s.contains(name) {
            return name.trim_end_matches('(').to_string();
        }
    }
    if s.contains('!') {
        return "!".into();
    }
    if s.chars().any(|c| crate::syntax::sup_to_digit(c).is_some()) {
        return "superscript".into();
    }
    "other".into()
}
