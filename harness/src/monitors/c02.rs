//! C02 — every evaluation terminates within work linear in the input length.

use super::workload::{hostile, Sizes};
use super::Monitor;
use crate::core::*;
use crate::sut;
use crate::val::{Outcome, ALL_EV};

pub struct C02;

impl Monitor for C02 {
    fn id(&self) -> &'static str {
        "C02"
    }
    fn configs(&self, t: Tier) -> Vec<&'static str> {
        let _ = t;
        vec!["release", "checked"]
    }
    fn run(&self, ctx: &mut Ctx) {
        let sz = match ctx.tier {
            Tier::Quick => Sizes { w1_full: 2, w1_class: 3, w2: 2, w3: 40_000, w4: 20_000, bombs: true },
            Tier::Thorough => Sizes { w1_full: 3, w1_class: 4, w2: 3, w3: 800_000, w4: 400_000, bombs: true },
        };
        for ev in ALL_EV {
            hostile(ctx, ev, &sz, "", &mut |ctx, case| {
                ctx.check(&case, &|c, st| self.judge(c, st));
            });
        }
    }
    fn judge(&self, case: &Case, st: &mut Stats) -> Verdict {
        let s = &case.exprs[0];
        let len = s.chars().count();
        let budget = sut::c02_budget(len);
        let r = sut::call_with(case.ev, s, &case.phs[0], budget, 0);
        st.max("max_steps", r.steps as f64);
        st.max("max_steps_over_budget_ratio", r.steps as f64 / budget as f64);
        st.max(&format!("max_steps_per_char.{}", case.ev.name()), r.steps as f64 / len.max(1) as f64);
        let bucket = match r.steps {
            0..=15 => "0-15",
            16..=63 => "16-63",
            64..=255 => "64-255",
            256..=1023 => "256-1023",
            1024..=4095 => "1024-4095",
            _ => "4096+",
        };
        st.inc(&format!("steps_histogram.{}", bucket));
        match r.outcome {
            Outcome::Budget(n) => {
                // which construct: first function name or '!' in the input
                let construct = construct_of(s);
                st.inc("budget_trips");
                viol(
                    "step-budget",
                    format!("C02|{}|step-budget|{}", case.ev.name(), construct),
                    format!("used more than {} steps (4096+256*{}) ; stopped at {}", budget, len, n),
                )
            }
            Outcome::Panic(..) => Verdict::Skip("panic-attributed-to-C01"),
            Outcome::Ok(_) => pass(true),
            Outcome::Err(_) => pass(r.steps >= 8 && r.steps as usize > len),
        }
    }
    fn rule(&self) -> &'static str {
        "cases as in C01 (W5 bombs over every looping construct x extreme/zero/negative/base-1/non-finite arguments, exhaustive short token sequences, random trees, mutations); each call is armed with a step budget of exactly 4096+256*len through the verif_hooks counter and is a violation when the counter passes it; loops that carry no counter are bounded by two backstops: every magnitude bomb, every construct repeated up to 64/128/256 characters and large random trees run under cachegrind (`sanitizers` entry of this file) and a call executing more than 10^7 + 10^6*chars instructions is a violation (deterministic, no clock), and a worker-side CPU-time watchdog (60 CPU-seconds for one call) catches what is slower still; non-trivial = returned Ok, or returned Err after at least 8 counted steps and more steps than input characters; distinct = distinct (evaluator, input, placeholder)"
    }
    fn assumptions(&self) -> Vec<&'static str> {
        vec![
            "steps are the tick() calls of the verif_hooks feature: tokenizer next and digit loops, parser functions and loops, eval entry and every evaluator loop body; loops inside dependencies (rust_decimal, std) are bounded only by the CPU-time watchdog",
            "len is the number of characters of the input as passed (before whitespace removal)",
        ]
    }
    fn floors(&self, _t: Tier) -> Vec<(String, u64)> {
        vec![("passed".into(), 10_000)]
    }
}

pub fn construct_of(s: &str) -> String {
    for name in ["ilog", "lambert_w", "w(", "gcd", "lcm", "min", "max", "avg", "med"] {
        if s.contains(name) {
            return name.trim_end_matches('(').to_string();
        }
    }
    if s.contains('!') {
        return "!".into();
    }
    if s.chars().any(|c| crate::syntax::sup_to_digit(c).is_some()) {
        return "superscript".into();
    }
    "other".into()
}
