//! Shared: judge an outcome against the reference evaluation of the input string.

use crate::core::*;
use crate::ref_cpx;
use crate::ref_dec::{self, RD};
use crate::ref_f64::{self, Q};
use crate::ref_i64::{self, RI};
use crate::ref_num::{self, RN};
use crate::syntax::Ast;
use crate::val::{Ev, Outcome, Val};

pub enum RefVerdict {
    /// reference gives no verdict for this expression
    Unspec,
    /// consistent; `exact` tells whether the expectation pinned the value exactly
    Ok { exact: bool },
    Bad(&'static str, String),
}

/// Compare `out` with the reference evaluation of `ast` under placeholder `ph`.
/// `panic_counts`: a panic where a verdict is due counts as a violation (C06, C07, C09, C11).
pub fn judge_ref(ev: Ev, ast: &Ast, ph: &Val, out: &Outcome, panic_counts: bool) -> RefVerdict {
    let lift = |r: Option<(&'static str, String)>, unspec: bool, exact: bool| match r {
        Some((c, d)) => RefVerdict::Bad(c, d),
        None if unspec => RefVerdict::Unspec,
        None => RefVerdict::Ok { exact },
    };
    if !panic_counts && matches!(out, Outcome::Panic(..)) {
        return RefVerdict::Unspec;
    }
    if matches!(out, Outcome::Budget(_)) {
        return RefVerdict::Unspec;
    }
    match (ev, ph) {
        (Ev::F64, Val::F(p)) => {
            let r = ref_f64::eval(ast, *p);
            if let (true, Outcome::Panic(m, l)) = (panic_counts && r.q != Q::Unspec, out) {
                return RefVerdict::Bad("panic", format!("panicked ({} @{})", m, l));
            }
            lift(ref_f64::judge(&r, out), matches!(r.q, Q::Unspec | Q::OkAny), matches!(r.q, Q::Exact | Q::NumEq))
        }
        (Ev::I64, Val::I(p)) => {
            let r = ref_i64::eval(ast, *p);
            lift(ref_i64::judge(&r, out, panic_counts), r == RI::Unspec, matches!(r, RI::V(_) | RI::MustErr))
        }
        (Ev::Dec, Val::D(p)) => {
            let r = ref_dec::eval(ast, p);
            lift(ref_dec::judge(&r, out, panic_counts), matches!(r, RD::Unspec), matches!(r, RD::Exact(_) | RD::MustErr))
        }
        (Ev::Cpx, Val::C(a, b)) => {
            let r = ref_cpx::eval(ast, (*a, *b));
            if let (true, Outcome::Panic(m, l)) = (panic_counts && r.q != ref_cpx::QC::Unspec, out) {
                return RefVerdict::Bad("panic", format!("panicked ({} @{})", m, l));
            }
            lift(ref_cpx::judge(&r, out), r.q == ref_cpx::QC::Unspec, r.q == ref_cpx::QC::NumEq)
        }
        (Ev::Num, v) => match ref_num::val_nv(v) {
            Some(nv) => {
                let r = ref_num::eval(ast, &nv);
                lift(ref_num::judge(&r, out, panic_counts), matches!(r, RN::Unspec | RN::OkAny), matches!(r, RN::Alts(_)))
            }
            None => RefVerdict::Unspec,
        },
        _ => RefVerdict::Unspec,
    }
}

/// Standard conversion to a monitor verdict. `shape` goes into the signature.
pub fn to_verdict(prop: &str, ev: Ev, shape: &str, rv: RefVerdict, need_exact: bool) -> Verdict {
    match rv {
        RefVerdict::Unspec => Verdict::Skip("reference-unspecified"),
        RefVerdict::Ok { exact } => {
            if need_exact && !exact {
                Verdict::Skip("reference-not-exact")
            } else {
                pass(true)
            }
        }
        RefVerdict::Bad(c, d) => viol(c, format!("{}|{}|{}|{}", prop, ev.name(), c, shape), d),
    }
}

/// Operator shape of an expression: root tag and the tags of its children (peeling round brackets).
pub fn shape_of(ast: &Ast) -> String {
    let a = ast.peel();
    let kids: Vec<String> = a.children().iter().map(|c| c.peel().tag()).collect();
    if kids.is_empty() {
        a.tag()
    } else {
        format!("{}({})", a.tag(), kids.join(","))
    }
}
