//! C18 — Number conversions are lossless and canonical.

use super::Monitor;
use crate::core::*;
use crate::sut;
use crate::val::{Ev, Val};

pub struct C18;

/// Expected image of Number::from(f64), decided on the bit pattern with integer arithmetic only.
pub fn expected_from_f64(v: f64) -> Val {
    let bits = v.to_bits();
    let neg = bits >> 63 == 1;
    let e = ((bits >> 52) & 0x7ff) as i64;
    let m = bits & 0x000f_ffff_ffff_ffff;
    if e == 0x7ff {
        return Val::NF(v); // inf / NaN
    }
    if e == 0 {
        // zero or subnormal
        return if m == 0 { Val::NI(0) } else { Val::NF(v) };
    }
    // value = (2^52 + m) * 2^(e - 1075)
    let sig: u128 = (1u128 << 52) | m as u128;
    let sh = e - 1075;
    let mag: u128 = if sh >= 0 {
        if sh > 11 {
            return Val::NF(v); // >= 2^64
        }
        sig << sh
    } else {
        let s = (-sh) as u32;
        if s >= 53 {
            return Val::NF(v); // < 1, non-zero
        }
        if sig & ((1u128 << s) - 1) != 0 {
            return Val::NF(v); // fractional
        }
        sig >> s
    };
    let lim: u128 = 1u128 << 63;
    if neg {
        if mag <= lim {
            Val::NI((mag as i128).wrapping_neg() as i64)
        } else {
            Val::NF(v)
        }
    } else if mag < lim {
        Val::NI(mag as i64)
    } else {
        Val::NF(v)
    }
}

fn structured() -> Vec<f64> {
    let mut v = vec![];
    for k in -1074i32..=1023 {
        let x = if k >= -1022 { f64::from_bits(((k + 1023) as u64) << 52) } else { f64::from_bits(1u64 << (k + 1074)) };
        for d in [-2i64, -1, 0, 1, 2] {
            let b = (x.to_bits() as i64 + d) as u64;
            v.push(f64::from_bits(b));
            v.push(-f64::from_bits(b));
        }
        if (0..=62).contains(&k) {
            v.push(x + 0.5);
            v.push(-(x + 0.5));
            v.push(x * 1.5);
        }
    }
    for base in [9223372036854775808.0f64, -9223372036854775808.0, 9007199254740992.0, 4503599627370496.0, 0.0, 1.0] {
        let b = base.to_bits() as i64;
        for d in -8..=8 {
            v.push(f64::from_bits((b + d) as u64));
        }
    }
    v.extend([0.0, -0.0, f64::NAN, f64::from_bits(0x7ff8_0000_dead_beef), f64::from_bits(0xfff0_0000_0000_0001), f64::INFINITY, f64::NEG_INFINITY, f64::MAX, f64::MIN, f64::MIN_POSITIVE, 5e-324]);
    v
}

impl Monitor for C18 {
    fn id(&self) -> &'static str {
        "C18"
    }
    fn configs(&self, _t: Tier) -> Vec<&'static str> {
        vec!["checked", "release"]
    }
    fn run(&self, ctx: &mut Ctx) {
        for x in structured() {
            if ctx.mine() {
                ctx.check(&Case::new(Ev::Num, "from-f64/structured", "", Val::NF(x)), &|c, st| self.judge(c, st));
            }
        }
        let n = ctx.tier.pick(1_000_000u64, 60_000_000);
        for i in 0..n {
            if ctx.mine() {
                let mut rng = ctx.rng("bits", i);
                let bits = rng.next();
                // bias half of the draws toward the interesting exponent range (integers up to 2^70)
                let bits = if i % 2 == 0 { bits } else { (bits & 0x800f_ffff_ffff_ffff) | (((1023 - 4 + rng.below(75)) as u64) << 52) };
                let bits = if i % 8 == 1 { bits & !((1u64 << rng.below(53)) - 1) } else { bits };
                ctx.check(&Case::new(Ev::Num, "from-f64/random", "", Val::NF(f64::from_bits(bits))), &|c, st| self.judge(c, st));
            }
        }
        // doubles whose two 32-bit words are related: code that takes a double apart the fdlibm way (high
        // word, low word, masks that depend on the exponent) goes wrong for particular relations between the
        // words, one low word in 2^32 per high word (seeded change C18-r10: `^` for `|` when combining the
        // fraction bits of the high word with the low word) - random bit patterns never meet them
        let nw = ctx.tier.pick(150_000u64, 3_000_000);
        for i in 0..nw {
            if !ctx.mine() {
                continue;
            }
            let mut rng = ctx.rng("words", i);
            let e = rng.below(80) as i64 - 6; // unbiased exponent -6..73
            let hi: u32 = (((rng.next() as u32) & 0x800f_ffff) | (((1023 + e) as u32) << 20)) & if rng.chance(1, 3) { !((1u32 << rng.below(20)) - 1) } else { u32::MAX };
            let ec = e.clamp(0, 20) as u32;
            let k = 1 + rng.below(31) as u32;
            let los: [u32; 16] = [hi, !hi, hi & 0x000f_ffff, hi & (0x000f_ffff >> ec), (hi & 0x000f_ffff) >> ec, (hi & 0x000f_ffff) << (12 + ec).min(31), hi >> k, hi << k, hi.rotate_left(k), hi.swap_bytes(), hi.reverse_bits(), hi ^ 1, hi.wrapping_add(1), hi.wrapping_sub(1), (hi & (0x000f_ffff >> ec)) ^ 1, !(hi & (0x000f_ffff >> ec))];
            for lo in los {
                let bits = ((hi as u64) << 32) | lo as u64;
                ctx.check(&Case::new(Ev::Num, "from-f64/words", "", Val::NF(f64::from_bits(bits))), &|c, st| self.judge(c, st));
            }
        }
        for x in crate::gen::i64_pool() {
            if ctx.mine() {
                ctx.check(&Case::new(Ev::Num, "from-i64", "", Val::NI(x)), &|c, st| self.judge(c, st));
            }
        }
        // the same conversions end to end: an integer literal, or an Integer placeholder, must come
        // back as Integer of the same value; a literal with a point as the Float it denotes
        let n3 = ctx.tier.pick(60_000u64, 1_000_000);
        for i in 0..n3 {
            if ctx.mine() {
                let mut rng = ctx.rng("via-eval", i);
                let x = if i % 3 == 0 { *rng.pick(&crate::gen::i64_pool()) } else { (rng.next() as i64) >> rng.below(64) };
                ctx.check(&Case::new(Ev::Num, "via-eval", "", Val::NI(x)), &|c, st| self.judge(c, st));
            }
        }
        let n2 = ctx.tier.pick(100_000u64, 2_000_000);
        for i in 0..n2 {
            if ctx.mine() {
                let mut rng = ctx.rng("i64", i);
                let x = (rng.next() as i64) >> rng.below(64);
                ctx.check(&Case::new(Ev::Num, "from-i64", "", Val::NI(x)), &|c, st| self.judge(c, st));
            }
        }
    }
    fn judge(&self, case: &Case, st: &mut Stats) -> Verdict {
        match case.phs[0] {
            Val::NF(x) => {
                let r = std::panic::catch_unwind(|| sut::number_from_f64(x));
                let got = match r {
                    Ok(g) => g,
                    Err(_) => return viol("panic", "C18|number|panic|from-f64".into(), format!("Number::from({:?}) panicked", x)),
                };
                let want = expected_from_f64(x);
                st.inc(match want {
                    Val::NI(_) => "expected.integer",
                    _ => "expected.float",
                });
                // "with v's bits unchanged": NaN payloads and signs are compared too
                let bits_ok = match (&got, &want) {
                    (Val::NF(a), Val::NF(b)) => a.to_bits() == b.to_bits(),
                    _ => got.same_bits(&want),
                };
                if bits_ok {
                    pass(true)
                } else {
                    let region = if x.abs() >= 9.2e18 { "at-or-above-2^63" } else if x.is_nan() { "nan" } else if x == x.trunc() { "integral" } else { "fractional" };
                    viol("wrong-conversion", format!("C18|number|wrong-conversion|{}", region), format!("Number::from({:?}) [bits {:016x}] = {} ; expected {}", x, x.to_bits(), got.show(), want.show()))
                }
            }
            Val::NI(x) if case.kind == "via-eval" => {
                // literal (non-negative values) and placeholder routes
                let mut routes: Vec<(String, Val)> = vec![("@".to_string(), Val::NI(x)), ("@+0".to_string(), Val::NI(x))];
                if x >= 0 {
                    routes.push((format!("{}", x), Val::NI(0)));
                    routes.push((format!("0+{}", x), Val::NI(0)));
                }
                for (e, p) in routes {
                    match sut::call(Ev::Num, &e, &p) {
                        crate::val::Outcome::Ok(v) if v.same_bits(&Val::NI(x)) => {}
                        crate::val::Outcome::Panic(..) | crate::val::Outcome::Budget(_) => return Verdict::Skip("panic-or-budget"),
                        other => return viol("conversion-changes-value", "C18|number|conversion-changes-value|via-eval".into(), format!("eval_number({:?}) with @={} returned {} ; expected Integer({})", e, p.show(), other.show(), x)),
                    }
                }
                st.inc("via_eval_confirmed");
                pass(true)
            }
            Val::NI(x) => {
                let got = sut::number_from_i64(x);
                if got.same_bits(&Val::NI(x)) {
                    st.inc("i64_confirmed");
                    pass(true)
                } else {
                    viol("wrong-conversion", "C18|number|wrong-conversion|from-i64".into(), format!("Number::from({}i64) = {}", x, got.show()))
                }
            }
            _ => Verdict::Skip("not-a-conversion-case"),
        }
    }
    fn rule(&self) -> &'static str {
        "Number::from(f64) on the structured boundary set (every power of two from 2^-1074 to 2^1023 with its +-1 and +-2 ulp neighbours, both signs, k+1/2 and 1.5*2^k, +-2^63, 2^53, 2^52, 0 and 1 with 8 neighbours each side, +-0, NaN payloads, infinities, MAX, MIN_POSITIVE, smallest subnormal) and on random bit patterns (half uniform over all 2^64 patterns, half with exponents -4..70 where integrality and the i64 range are decided, an eighth with trailing mantissa bits cleared); Number::from(i64) on the boundary pool and random values; the expected variant and payload are decoded from sign/exponent/mantissa with integer arithmetic only; non-trivial = every case; distinct = distinct bit pattern"
    }
    fn assumptions(&self) -> Vec<&'static str> {
        vec!["-0.0 is integral and equals 0: Integer(0) is expected (its sign is not a numeric value)"]
    }
    fn floors(&self, _t: Tier) -> Vec<(String, u64)> {
        vec![("via_eval_confirmed".into(), 20_000), ("expected.integer".into(), 50_000), ("expected.float".into(), 50_000), ("i64_confirmed".into(), 10_000)]
    }
}
