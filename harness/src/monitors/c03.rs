//! C03 — Ok implies the entire input was one well-formed expression (and conversely).

use super::workload::{hostile, Sizes};
use super::Monitor;
use crate::core::*;
use crate::ref_cpx;
use crate::ref_dec::{self, RD};
use crate::ref_f64::{self, Q};
use crate::ref_i64::{self, RI};
use crate::ref_num::{self, RN};
use crate::sut;
use crate::syntax::{parse, Ast};
use crate::val::{Ev, Outcome, Val, ALL_EV};

pub struct C03;

/// Does the reference place this well-formed expression inside the conservative core where every
/// operation is defined, so that the evaluator must return Ok?
pub fn must_be_ok(ev: Ev, ast: &Ast, ph: &Val) -> bool {
    match (ev, ph) {
        (Ev::F64, Val::F(p)) => ref_f64::eval(ast, *p).q != Q::Unspec,
        (Ev::I64, Val::I(p)) => matches!(ref_i64::eval(ast, *p), RI::V(_) | RI::Near(_)),
        (Ev::Dec, Val::D(p)) => matches!(ref_dec::eval(ast, p), RD::Exact(_) | RD::Quot(_) | RD::Rel(..) | RD::W(_)),
        (Ev::Cpx, Val::C(a, b)) => ref_cpx::core_value(ast, (*a, *b)).is_some(),
        (Ev::Num, v) => match ref_num::val_nv(v) {
            Some(nv) => !matches!(ref_num::eval(ast, &nv), RN::Unspec),
            None => false,
        },
        _ => false,
    }
}

/// stable abstraction of the recogniser's reason (digits stripped)
fn reason_class(r: &str) -> String {
    r.chars().filter(|c| !c.is_ascii_digit()).take(48).collect::<String>().trim().to_string()
}

impl Monitor for C03 {
    fn id(&self) -> &'static str {
        "C03"
    }
    fn run(&self, ctx: &mut Ctx) {
        let sz = match ctx.tier {
            Tier::Quick => Sizes { w1_full: 3, w1_class: 4, w2: 3, w3: 60_000, w4: 100_000, bombs: true },
            Tier::Thorough => Sizes { w1_full: 3, w1_class: 5, w2: 4, w3: 600_000, w4: 1_500_000, bombs: true },
        };
        for ev in ALL_EV {
            hostile(ctx, ev, &sz, "", &mut |ctx, case| {
                ctx.check(&case, &|c, st| self.judge(c, st));
            });
            // one construct repeated many times (inputs well beyond 256 characters): well-formed and
            // defined, so the answer must be Ok
            for (fam, k, s) in crate::gen::repetitions(ev, crate::gen::rep_cap(&ctx.config)) {
                if ctx.mine() {
                    let case = Case::new(ev, "rep", &s, Val::zero(ev)).with_extra(&format!("{} x{}", fam, k));
                    ctx.check(&case, &|c, st| {
                        let v = self.judge(c, st);
                        if let Verdict::Pass { .. } = v {
                            st.inc("repetitions_accepted");
                            st.max("max_repetition_count", k as f64);
                        }
                        v
                    });
                }
            }
        }
    }
    fn judge(&self, case: &Case, st: &mut Stats) -> Verdict {
        let s = &case.exprs[0];
        let o = sut::call(case.ev, s, &case.phs[0]);
        if matches!(o, Outcome::Panic(..) | Outcome::Budget(_)) {
            return Verdict::Skip("panic-or-budget-attributed-to-C01-C02");
        }
        match parse(case.ev, s) {
            Err(reason) => {
                st.inc("reference_rejects");
                match o {
                    Outcome::Ok(v) => {
                        st.inc("ok_on_reject");
                        viol(
                            "ok-on-reject",
                            format!("C03|{}|ok-on-reject|{}", case.ev.name(), reason_class(&reason)),
                            format!("the grammar rejects this input ({}) but the evaluator returned Ok({})", reason, v.show()),
                        )
                    }
                    // non-trivial rejections: inputs that pass the lexer, or near-miss mutations of well-formed ones
                    _ => pass(case.kind == "w4" || crate::syntax::lex(case.ev, s).is_ok()),
                }
            }
            Ok(p) => {
                st.inc("reference_accepts");
                if p.unspec {
                    return Verdict::Skip("unspecified-grouping-after-postfix");
                }
                st.cover(&format!("accepted_root_shapes.{}", case.ev.name()), &p.ast.tag());
                if o.is_err() {
                    if must_be_ok(case.ev, &p.ast, &case.phs[0]) {
                        st.inc("err_on_accept");
                        return viol(
                            "err-on-accept",
                            format!("C03|{}|err-on-accept|{}", case.ev.name(), p.ast.tag()),
                            format!("well-formed with every operation defined, but the evaluator returned {}", o.show()),
                        );
                    }
                    return Verdict::Skip("err-outside-defined-core");
                }
                pass(true)
            }
        }
    }
    fn rule(&self) -> &'static str {
        "cases = (evaluator, input, placeholder) from W1 (every token sequence over own+foreign vocabulary up to the stated length), W2 (every short character string over the keyword alphabet), W3 random well-formed trees, W4 near-miss mutations and W5; each decided against the independently written lexer + recursive-descent recogniser: Ok on a rejected input, or Err on an accepted input whose reference evaluation stays inside the defined core, is a violation; non-trivial = accepted by the reference grammar, or rejected although it passes the lexer / is a one-or-two-edit mutation of a well-formed input; distinct = distinct (evaluator, input, placeholder)"
    }
    fn assumptions(&self) -> Vec<&'static str> {
        vec![
            "the reference grammar is DESIGN.md §3.1/§3.2, written from the property statements and README",
            "inputs with a tighter operator directly after a looser postfix one (^, superscript or ! after ° / rad; ! after a superscript) get no verdict",
            "panics and step-budget trips are attributed to C01 / C02",
        ]
    }
    fn floors(&self, _t: Tier) -> Vec<(String, u64)> {
        vec![("reference_accepts".into(), 5_000), ("reference_rejects".into(), 5_000), ("repetitions_accepted".into(), 2_000)]
    }
}
