//! C06 — eval_i64 returns the exact integer result or Err, never a wrapped value.

use super::refjudge::*;
use super::Monitor;
use crate::core::*;
use crate::gen::*;
use crate::prng::Rng;
use crate::sut;
use crate::syntax::*;
use crate::val::{Ev, Val};

pub struct C06;

impl Monitor for C06 {
    fn id(&self) -> &'static str {
        "C06"
    }
    fn configs(&self, _t: Tier) -> Vec<&'static str> {
        vec!["checked", "release"]
    }
    fn digest_block(&self) -> u64 {
        4096
    }
    fn run(&self, ctx: &mut Ctx) {
        let ev = Ev::I64;
        let pool = i64_pool();
        let ops = ["+", "-", "*", "/", "%", "^", "&", "|", "<<", ">>"];
        // depth 1: every operator over every ordered pair, operands as literals and through @
        for a in &pool {
            for b in &pool {
                for op in ops {
                    for via_ph in [false, true] {
                        if !ctx.mine() {
                            continue;
                        }
                        let sa = if via_ph { "@".to_string() } else { i64_expr(*a) };
                        let s = format!("{}{}{}", sa, op, i64_expr(*b));
                        ctx.check(&Case::new(ev, "depth1", &s, Val::I(*a)), &|c, st| self.judge(c, st));
                    }
                }
                for f in ["mod", "pow"] {
                    if ctx.mine() {
                        let s = format!("{}({},{})", f, i64_expr(*a), i64_expr(*b));
                        ctx.check(&Case::new(ev, "depth1", &s, Val::I(0)), &|c, st| self.judge(c, st));
                    }
                }
            }
            for form in ["-{a}", "abs({a})", "sgn({a})", "{a}!", "{a}²", "{a}³", "{a}⁶³", "{a}⁶⁴", "--{a}", "-@", "abs(@)", "@!", "exp2({a})"] {
                if ctx.mine() {
                    let s = form.replace("{a}", &i64_expr(*a));
                    ctx.check(&Case::new(ev, "depth1", &s, Val::I(*a)), &|c, st| self.judge(c, st));
                }
            }
        }
        // depth 2 over a sub-pool
        let sub: Vec<i64> = vec![0, 1, -1, 2, 3, 63, 64, 2147483648, 3037000500, 4611686018427387904, i64::MAX, i64::MIN];
        let ops2 = ["+", "-", "*", "/", "%", "^", "<<", ">>", "&", "|"];
        for a in &sub {
            for b in &sub {
                for c in &sub {
                    for o1 in ops2 {
                        for o2 in ops2 {
                            if !ctx.mine() {
                                continue;
                            }
                            let s = if (a ^ b ^ c) & 1 == 0 { format!("({}{}{}){}{}", i64_expr(*a), o1, i64_expr(*b), o2, i64_expr(*c)) } else { format!("{}{}({}{}{})", i64_expr(*a), o1, i64_expr(*b), o2, i64_expr(*c)) };
                            ctx.check(&Case::new(ev, "depth2", &s, Val::I(0)), &|c, st| self.judge(c, st));
                        }
                    }
                }
            }
        }
        // operand pairs whose result lands within a few hundred of a range boundary
        let nb = ctx.tier.pick(40_000u64, 800_000);
        for i in 0..nb {
            if ctx.mine() {
                let mut rng = ctx.rng("boundary", i);
                let (a, op, b) = boundary_seeking(&mut rng);
                let (s, ph) = match rng.below(4) {
                    0 => (format!("@{}{}", op, i64_expr(b)), a),
                    1 => (format!("{}{}@", i64_expr(a), op), b),
                    _ => (format!("{}{}{}", i64_expr(a), op, i64_expr(b)), 0),
                };
                ctx.check(&Case::new(ev, "boundary", &s, Val::I(ph)), &|c, st| self.judge(c, st));
            }
        }
        // random trees
        let poolc = pool.clone();
        let leaf = move |rng: &mut Rng| -> Ast {
            if rng.chance(1, 8) {
                return Ast::Ans;
            }
            let v = if rng.chance(1, 2) { *rng.pick(&poolc) } else { rng.range(-40, 40) };
            if v >= 0 {
                Ast::Lit(v.to_string())
            } else if v == i64::MIN {
                Ast::Group(Br::Round, Box::new(Ast::Bin(Op::Sub, Box::new(Ast::Neg(Box::new(Ast::Lit("9223372036854775807".into())))), Box::new(Ast::Lit("1".into())))))
            } else {
                Ast::Group(Br::Round, Box::new(Ast::Neg(Box::new(Ast::Lit((-(v as i128)).to_string())))))
            }
        };
        let mut cfg = GenCfg::full(ev, &leaf);
        cfg.funcs = vec![Func::Abs, Func::Sgn, Func::Mod, Func::Pow, Func::Min, Func::Max];
        cfg.sup_digits = vec!["2", "3", "0", "1", "10", "62", "63", "64", "4", "5", "6", "7", "8", "9"];
        let n = ctx.tier.pick(150_000u64, 3_000_000);
        for i in 0..n {
            if ctx.mine() {
                let mut rng = ctx.rng("tree", i);
                let depth = 1 + rng.below(6);
                let (_, s) = gen_expr(&cfg, &mut rng, depth);
                let ph = *rng.pick(&pool);
                ctx.check(&Case::new(ev, "tree", &s, Val::I(ph)), &|c, st| self.judge(c, st));
            }
        }
    }
    fn judge(&self, case: &Case, st: &mut Stats) -> Verdict {
        let s = &case.exprs[0];
        let p = match parse(case.ev, s) {
            Ok(p) if !p.unspec => p,
            _ => return Verdict::Skip("not-a-specified-sentence"),
        };
        let o = sut::call(case.ev, s, &case.phs[0]);
        // "behaves identically in debug and release": digest of every outcome, also in unspecified regions
        st.digest(case, &o);
        st.inc(&format!("by_outcome.{}", o.class()));
        let rv = judge_ref(case.ev, &p.ast, &case.phs[0], &o, true);
        if let RefVerdict::Ok { .. } = rv {
            st.cover("root_operations", &p.ast.peel().tag());
            if o.is_err() {
                st.inc("required_errors_observed");
            }
        }
        to_verdict("C06", case.ev, &shape_of(&p.ast), rv, false)
    }
    fn rule(&self) -> &'static str {
        "depth-1: every operator (+ - * / % ^ & | << >> mod pow) over every ordered pair of the 25-value boundary pool (0, +-1, 2^31, 2^32, 3037000499/500, 2^62, i64::MAX, i64::MIN, ...) with the left operand as a literal and through @, unary minus/abs/sgn/!/superscripts/exp2; depth-2: every operator pair in both bracketings over a 12-value sub-pool; + - * on operand pairs constructed so that the exact result lands within 1500 of +-2^63, +-2^53, 2^31, 2^32, +-2^62 or 0 (operands of every magnitude, as literals and through @); random trees of depth<=6; oracle = exact arithmetic in i128 with range checks (value, must-Err, value-or-Err, unspecified); every outcome (also in unspecified regions) is additionally folded into per-block digests that must be identical between the overflow-checked and the release build; non-trivial = the reference gives a verdict; distinct = distinct (expression, placeholder)"
    }
    fn assumptions(&self) -> Vec<&'static str> {
        vec!["overflowing << and MIN % -1 accept the stated value or Err; exponents outside 0..2^32-1 and n! for n<0 are unspecified for the value but still compared across build configurations"]
    }
    fn floors(&self, _t: Tier) -> Vec<(String, u64)> {
        vec![("required_errors_observed".into(), 5_000), ("by_outcome.ok".into(), 20_000), ("config_blocks_compared".into(), 20)]
    }
}
