//! C06 — eval_i64 returns the exact integer result or Err, never a wrapped value.

use super::refjudge::*;
use super::Monitor;
use crate::core::*;
use crate::gen::*;
use crate::prng::Rng;
use crate::sut;
use crate::syntax::*;
use crate::val::{Ev, Val};

pub struct C06;

/// A flat chain `t0 ± t1 ± t2 …` whose prefix sums hover around +-2^63 (and 0): most steps land within
/// a few units of a boundary, on either side of it. Negative terms are written with a prefix minus
/// (`+-5`) or bracketed; some chains use `+` only; some are padded with zero terms.
pub fn boundary_walk(rng: &mut Rng) -> String {
    const MAX: i128 = i64::MAX as i128;
    const MIN: i128 = i64::MIN as i128;
    let n = if rng.chance(1, 2) { 3 + rng.below(10) } else { 13 + rng.below(60) };
    let plus_only = rng.chance(1, 2);
    let term = |v: i128, rng: &mut Rng| -> String {
        if v >= 0 {
            v.to_string()
        } else if v == MIN {
            "(-9223372036854775807-1)".to_string()
        } else if rng.chance(2, 3) {
            format!("-{}", -v)
        } else {
            format!("(0-{})", -v)
        }
    };
    let start: i128 = match rng.below(5) {
        0 => MAX - rng.below(4) as i128,
        1 => MIN + rng.below(4) as i128,
        2 => 0,
        3 => rng.range(-1000, 1000) as i128,
        _ => (rng.next() as i64) as i128,
    };
    let mut total = start;
    let mut s = if start == MAX && rng.chance(1, 4) { "@".to_string() } else { term(start, rng) };
    if s.starts_with('-') {
        s = format!("(0{})", s);
    }
    let mut alive = true;
    for _ in 1..n {
        // where the running total should go next
        let target: i128 = match rng.below(8) {
            0 | 1 | 2 => MAX - 2 + rng.below(6) as i128,
            3 | 4 => MIN - 3 + rng.below(6) as i128,
            5 => total,
            6 => rng.range(-5, 5) as i128,
            _ => (rng.next() as i64) as i128 / 2,
        };
        let mut delta = if alive { target - total } else { rng.range(-3, 3) as i128 };
        delta = delta.clamp(MIN, MAX);
        let minus = !plus_only && rng.chance(1, 2);
        let t = if minus { -delta } else { delta };
        let t = t.clamp(MIN, MAX);
        s.push(if minus { '-' } else { '+' });
        s.push_str(&term(t, rng));
        total = if minus { total - t } else { total + t };
        if total > MAX || total < MIN {
            alive = false; // the chain has overflowed: the rest is small change
        }
    }
    s
}

impl Monitor for C06 {
    fn id(&self) -> &'static str {
        "C06"
    }
    fn configs(&self, _t: Tier) -> Vec<&'static str> {
        vec!["checked", "release"]
    }
    fn digest_block(&self) -> u64 {
        4096
    }
    fn run(&self, ctx: &mut Ctx) {
        let ev = Ev::I64;
        let pool = i64_pool();
        let ops = ["+", "-", "*", "/", "%", "^", "&", "|", "<<", ">>"];
        // depth 1: every operator over every ordered pair, operands as literals and through @
        for a in &pool {
            for b in &pool {
                for op in ops {
                    for via_ph in [false, true] {
                        if !ctx.mine() {
                            continue;
                        }
                        let sa = if via_ph { "@".to_string() } else { i64_expr(*a) };
                        let s = format!("{}{}{}", sa, op, i64_expr(*b));
                        ctx.check(&Case::new(ev, "depth1", &s, Val::I(*a)), &|c, st| self.judge(c, st));
                    }
                }
                for f in ["mod", "pow"] {
                    if ctx.mine() {
                        let s = format!("{}({},{})", f, i64_expr(*a), i64_expr(*b));
                        ctx.check(&Case::new(ev, "depth1", &s, Val::I(0)), &|c, st| self.judge(c, st));
                    }
                }
            }
            for form in ["-{a}", "abs({a})", "sgn({a})", "{a}!", "{a}²", "{a}³", "{a}⁶³", "{a}⁶⁴", "--{a}", "-@", "abs(@)", "@!", "exp2({a})"] {
                if ctx.mine() {
                    let s = form.replace("{a}", &i64_expr(*a));
                    ctx.check(&Case::new(ev, "depth1", &s, Val::I(*a)), &|c, st| self.judge(c, st));
                }
            }
        }
        // depth 2 over a sub-pool
        let sub: Vec<i64> = vec![0, 1, -1, 2, 3, 63, 64, 2147483648, 3037000500, 4294967291, 4611686018427387904, i64::MAX, i64::MIN];
        let ops2 = ["+", "-", "*", "/", "%", "^", "<<", ">>", "&", "|"];
        for a in &sub {
            for b in &sub {
                for c in &sub {
                    for o1 in ops2 {
                        for o2 in ops2 {
                            if !ctx.mine() {
                                continue;
                            }
                            let s = if (a ^ b ^ c) & 1 == 0 { format!("({}{}{}){}{}", i64_expr(*a), o1, i64_expr(*b), o2, i64_expr(*c)) } else { format!("{}{}({}{}{})", i64_expr(*a), o1, i64_expr(*b), o2, i64_expr(*c)) };
                            ctx.check(&Case::new(ev, "depth2", &s, Val::I(0)), &|c, st| self.judge(c, st));
                        }
                    }
                }
            }
        }
        // operand pairs whose result lands within a few hundred of a range boundary
        let nb = ctx.tier.pick(40_000u64, 800_000);
        for i in 0..nb {
            if ctx.mine() {
                let mut rng = ctx.rng("boundary", i);
                let (a, op, b) = boundary_seeking(&mut rng);
                let (s, ph) = match rng.below(4) {
                    0 => (format!("@{}{}", op, i64_expr(b)), a),
                    1 => (format!("{}{}@", i64_expr(a), op), b),
                    _ => (format!("{}{}{}", i64_expr(a), op, i64_expr(b)), 0),
                };
                ctx.check(&Case::new(ev, "boundary", &s, Val::I(ph)), &|c, st| self.judge(c, st));
            }
        }
        // the two-argument grid of small indices against powers of 10, 2, 3 and, with it, powers and products
        // under a remainder for moduli around 2^31..2^32 (gen::int_grid)
        for (i, s) in int_grid(ev).into_iter().enumerate() {
            if i % ctx.tier.pick(4, 1) == 0 && ctx.mine() {
                ctx.check(&Case::new(ev, "grid", &s, Val::I(0)), &|c, st| self.judge(c, st));
            }
        }
        // three operations sharing an operand, and the shape family (gen::repeated_operand_family, shape_family)
        for (c, e) in repeated_operand_family(ev).into_iter().chain(shape_family(ev)) {
            if ctx.mine() {
                let s = c.replace("{h}", &format!("({})", e));
                ctx.check(&Case::new(ev, "shape", &s, Val::I(0)), &|c, st| self.judge(c, st));
            }
        }
        // powers next to the range boundaries, in every spelling
        let np = ctx.tier.pick(20_000u64, 400_000);
        for i in 0..np {
            if ctx.mine() {
                let mut rng = ctx.rng("pow-boundary", i);
                let (b, e) = pow_boundary(&mut rng);
                let bs = i64_expr(b);
                let (s, ph) = match rng.below(6) {
                    0 => (format!("@^{}", e), Val::I(b)),
                    1 => (format!("pow({},{})", bs, e), Val::I(0)),
                    2 => (format!("{}{}", bs, crate::syntax::to_sup(&e.to_string())), Val::I(0)),
                    3 => (format!("pow(@,{})", e), Val::I(b)),
                    4 => (format!("{}^@", bs), Val::I(e as i64)),
                    _ => (format!("{}^{}", bs, e), Val::I(0)),
                };
                ctx.check(&Case::new(ev, "pow-boundary", &s, ph), &|c, st| {
                    let v = self.judge(c, st);
                    if let Verdict::Pass { .. } = v {
                        st.inc("pow_boundaries_confirmed");
                    }
                    v
                });
            }
        }
        // flat chains of + and - whose running total walks along the range boundaries: every prefix sum
        // is an intermediate result, so regrouping a chain (pairwise or balanced summation, a fused
        // accumulator) shows as a wrong Ok or a wrong Err (seeded change C06-r8: runs of 16 or more
        // operands folded as a balanced tree)
        let nw = ctx.tier.pick(60_000u64, 1_200_000);
        for i in 0..nw {
            if ctx.mine() {
                let mut rng = ctx.rng("walk", i);
                let s = boundary_walk(&mut rng);
                let ph = if s.contains('@') { i64::MAX - rng.below(3) as i64 } else { 0 };
                let n_terms = s.matches(|c| c == '+' || c == '-').count();
                ctx.check(&Case::new(ev, "walk", &s, Val::I(ph)), &|c, st| {
                    let v = self.judge(c, st);
                    if let Verdict::Pass { .. } = v {
                        st.inc(if n_terms >= 16 { "walks_confirmed.16+" } else { "walks_confirmed.short" });
                    }
                    v
                });
            }
        }
        // random trees
        let poolc = pool.clone();
        let leaf = move |rng: &mut Rng| -> Ast {
            if rng.chance(1, 8) {
                return Ast::Ans;
            }
            let v = if rng.chance(1, 2) { *rng.pick(&poolc) } else { rng.range(-40, 40) };
            if v >= 0 {
                Ast::Lit(v.to_string())
            } else if v == i64::MIN {
                Ast::Group(Br::Round, Box::new(Ast::Bin(Op::Sub, Box::new(Ast::Neg(Box::new(Ast::Lit("9223372036854775807".into())))), Box::new(Ast::Lit("1".into())))))
            } else {
                Ast::Group(Br::Round, Box::new(Ast::Neg(Box::new(Ast::Lit((-(v as i128)).to_string())))))
            }
        };
        let mut cfg = GenCfg::full(ev, &leaf);
        cfg.funcs = vec![Func::Abs, Func::Sgn, Func::Mod, Func::Pow, Func::Min, Func::Max];
        cfg.sup_digits = vec!["2", "3", "0", "1", "10", "62", "63", "64", "4", "5", "6", "7", "8", "9"];
        let n = ctx.tier.pick(150_000u64, 3_000_000);
        for i in 0..n {
            if ctx.mine() {
                let mut rng = ctx.rng("tree", i);
                let depth = 1 + rng.below(6);
                let (_, s) = gen_expr(&cfg, &mut rng, depth);
                let ph = *rng.pick(&pool);
                ctx.check(&Case::new(ev, "tree", &s, Val::I(ph)), &|c, st| self.judge(c, st));
            }
        }
    }
    fn judge(&self, case: &Case, st: &mut Stats) -> Verdict {
        let s = &case.exprs[0];
        let p = match parse(case.ev, s) {
            Ok(p) if !p.unspec => p,
            _ => return Verdict::Skip("not-a-specified-sentence"),
        };
        let o = sut::call(case.ev, s, &case.phs[0]);
        // "behaves identically in debug and release": digest of every outcome, also in unspecified regions
        st.digest(case, &o);
        st.inc(&format!("by_outcome.{}", o.class()));
        let rv = judge_ref(case.ev, &p.ast, &case.phs[0], &o, true);
        if let RefVerdict::Ok { .. } = rv {
            st.cover("root_operations", &p.ast.peel().tag());
            if o.is_err() {
                st.inc("required_errors_observed");
            }
        }
        to_verdict("C06", case.ev, &shape_of(&p.ast), rv, false)
    }
    fn rule(&self) -> &'static str {
        "depth-1: every operator (+ - * / % ^ & | << >> mod pow) over every ordered pair of the 25-value boundary pool (0, +-1, 2^31, 2^32, 3037000499/500, 2^62, i64::MAX, i64::MIN, ...) with the left operand as a literal and through @, unary minus/abs/sgn/!/superscripts/exp2; depth-2: every operator pair in both bracketings over a 12-value sub-pool; + - * on operand pairs constructed so that the exact result lands within 1500 of +-2^63, +-2^53, 2^31, 2^32, +-2^62 or 0 (operands of every magnitude, as literals and through @); random trees of depth<=6; oracle = exact arithmetic in i128 with range checks (value, must-Err, value-or-Err, unspecified); every outcome (also in unspecified regions) is additionally folded into per-block digests that must be identical between the overflow-checked and the release build; non-trivial = the reference gives a verdict; distinct = distinct (expression, placeholder)"
    }
    fn assumptions(&self) -> Vec<&'static str> {
        vec!["overflowing << and MIN % -1 accept the stated value or Err; exponents outside 0..2^32-1 and n! for n<0 are unspecified for the value but still compared across build configurations"]
    }
    fn floors(&self, _t: Tier) -> Vec<(String, u64)> {
        vec![("required_errors_observed".into(), 5_000), ("by_outcome.ok".into(), 20_000), ("config_blocks_compared".into(), 20), ("walks_confirmed.16+".into(), 5_000), ("walks_confirmed.short".into(), 5_000)]
    }
}
