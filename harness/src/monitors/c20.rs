//! C20 — compositionality: a bracketed subexpression can be replaced by its value.

use super::c13::{count_matching, map_nth};
use super::Monitor;
use crate::core::*;
use crate::gen::*;
use crate::prng::Rng;
use crate::sut;
use crate::syntax::*;
use crate::val::{Outcome, Val, ALL_EV};

pub struct C20;

const HOLE: &str = "\u{1}";

impl Monitor for C20 {
    fn id(&self) -> &'static str {
        "C20"
    }
    fn run(&self, ctx: &mut Ctx) {
        for ev in ALL_EV {
            let leaf0 = hostile_leaf(ev);
            // neither the context nor the subexpression uses @: the hole is the only placeholder
            let leaf = move |rng: &mut Rng| -> Ast {
                loop {
                    let a = leaf0(rng);
                    if !matches!(a, Ast::Ans) {
                        return a;
                    }
                }
            };
            let small0 = small_leaf(ev);
            let cfg = GenCfg::full(ev, &leaf);
            let cfg_small = GenCfg::full(ev, &small0);
            let n = ctx.tier.pick(80_000u64, 1_500_000);
            for i in 0..n {
                if !ctx.mine() {
                    continue;
                }
                let mut rng = ctx.rng(&format!("pair/{}", ev.name()), i);
                let c = if rng.chance(1, 2) { &cfg } else { &cfg_small };
                let (d1, d2) = (1 + rng.below(4), 1 + rng.below(4));
                let (e_ast, e) = gen_expr(c, &mut rng, d1);
                let (c_ast, _) = gen_expr(c, &mut rng, d2);
                // choose a leaf of the context as the hole
                let is_leaf = |a: &Ast| if matches!(a, Ast::Lit(_) | Ast::ImLit(_) | Ast::Pi(_) | Ast::E) { Some(Ast::Ans) } else { None };
                let leaves = count_matching(&c_ast, &is_leaf);
                if leaves == 0 {
                    continue;
                }
                let k = rng.below(leaves);
                let with_hole = map_nth(&c_ast, k, &mut 0, &is_leaf);
                let with_e = map_nth(&c_ast, k, &mut 0, &|a: &Ast| is_leaf(a).map(|_| Ast::Group(Br::Round, Box::new(e_ast.clone()))));
                let (s_hole, s_e) = (with_hole.render(), with_e.render());
                if s_e.chars().count() > 600 {
                    continue;
                }
                // hole in operand or argument position: both texts must be sentences with the same tree
                // up to the hole (otherwise `(E)` and `@` differ in implicit-product eligibility)
                match (parse(ev, &s_hole), parse(ev, &s_e)) {
                    (Ok(a), Ok(b)) if !a.unspec && !b.unspec && a.ast == with_hole && b.ast == with_e => {}
                    _ => continue,
                }
                let case = Case { ev, kind: "substitute".into(), exprs: vec![s_e, s_hole, e], phs: vec![Val::zero(ev)], extra: String::new() };
                ctx.check(&case, &|c, st| self.judge(c, st));
            }
        }
    }
    fn judge(&self, case: &Case, st: &mut Stats) -> Verdict {
        let ev = case.ev;
        let (s_e, s_hole, e) = (&case.exprs[0], &case.exprs[1], &case.exprs[2]);
        let z = Val::zero(ev);
        let v = match sut::call(ev, e, &z) {
            Outcome::Ok(v) => v,
            Outcome::Err(_) => return Verdict::Skip("subexpression-is-err"),
            _ => return Verdict::Skip("panic-or-budget"),
        };
        let a = sut::call(ev, s_e, &z);
        let b = sut::call(ev, s_hole, &v);
        if matches!(a, Outcome::Panic(..) | Outcome::Budget(_)) || matches!(b, Outcome::Panic(..) | Outcome::Budget(_)) {
            return Verdict::Skip("panic-or-budget");
        }
        let _ = HOLE;
        if a.same(&b) {
            st.inc(if a.is_ok() { "triples_equal_ok" } else { "triples_equal_err" });
            if let Ok(p) = parse(ev, s_hole) {
                // which operation sees the hole
                let mut parent = String::from("root");
                find_parent(&p.ast, "root", &mut parent);
                st.cover(&format!("hole_parents.{}", ev.name()), &parent);
            }
            st.inc(if v.is_finite() { "subvalues.finite" } else { "subvalues.nonfinite" });
            pass(true)
        } else {
            let mut parent = String::from("root");
            if let Ok(p) = parse(ev, s_hole) {
                find_parent(&p.ast, "root", &mut parent);
            }
            viol("context-sees-more-than-the-value", format!("C20|{}|context-sees-more-than-the-value|{}", ev.name(), parent), format!("E = {} -> {} ; C[(E)] = {} -> {} ; C[@] = {} with @ = that value -> {}", e, v.show(), s_e, a.show(), s_hole, b.show()))
        }
    }
    fn rule(&self) -> &'static str {
        "random pairs (context C, subexpression E) of well-formed expressions without `@` (depth<=4 each, hostile and small literal pools, every operator, function, aggregate and implicit product of the evaluator): a leaf of C becomes the hole; the pair is kept when both C[@] and C[(E)] are sentences whose trees differ only at the hole; three calls through the public API - E alone, C[(E)], and C[@] with the placeholder set to E's value - and the last two must have the same outcome (bit for bit, or Err in both); non-trivial = E evaluated to Ok and both contexts were evaluated; distinct = distinct triple"
    }
    fn assumptions(&self) -> Vec<&'static str> {
        vec!["pairs whose subexpression is Err, or whose hole would change implicit-product eligibility, are skipped as the statement excludes them"]
    }
    fn floors(&self, _t: Tier) -> Vec<(String, u64)> {
        vec![("triples_equal_ok".into(), 20_000), ("triples_equal_err".into(), 200), ("set:hole_parents.f64".into(), 30), ("set:hole_parents.number".into(), 30), ("set:hole_parents.i64".into(), 20)]
    }
}

fn find_parent(ast: &Ast, parent: &str, out: &mut String) {
    if matches!(ast, Ast::Ans) {
        *out = parent.to_string();
        return;
    }
    let me = ast.tag();
    for c in ast.children() {
        find_parent(c, &me, out);
    }
}
