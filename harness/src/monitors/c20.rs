//! C20 — compositionality: a bracketed subexpression can be replaced by its value.

use super::c13::{count_matching, map_nth};
use super::Monitor;
use crate::core::*;
use crate::gen::*;
use crate::prng::Rng;
use crate::sut;
use crate::syntax::*;
use crate::val::{Ev, Outcome, Val, ALL_EV};

pub struct C20;

const HOLE: &str = "\u{1}";

impl Monitor for C20 {
    fn id(&self) -> &'static str {
        "C20"
    }
    fn run(&self, ctx: &mut Ctx) {
        for ev in ALL_EV {
            let leaf0 = hostile_leaf(ev);
            // neither the context nor the subexpression uses @: the hole is the only placeholder
            let leaf = move |rng: &mut Rng| -> Ast {
                loop {
                    let a = leaf0(rng);
                    if !matches!(a, Ast::Ans) {
                        return a;
                    }
                }
            };
            // one-level contexts, systematically: the hole as the operand of every postfix and prefix
            // operator, as each argument of every function and on each side of every binary operator;
            // E from a pool of small computed (non-literal) expressions; the other operand from special
            // values, boundary values and random draws
            {
                let mut forms: Vec<String> = vec!["-{h}", "+{h}", "{h}²", "{h}³", "2^{h}", "{h}^2", "{h}+{o}", "{o}+{h}", "{h}-{o}", "{o}-{h}", "{h}*{o}", "{o}*{h}", "{h}/{o}", "{o}/{h}", "{h}^{o}", "{o}^{h}"].into_iter().map(String::from).collect();
                if has_fact_mod(ev) {
                    forms.extend(["{h}!", "{h}%{o}", "{o}%{h}"].into_iter().map(String::from));
                }
                if has_degrad(ev) {
                    forms.extend(["{h}°", "{h}rad"].into_iter().map(String::from));
                }
                if has_bitops(ev) {
                    forms.extend(["{h}<<{o}", "{o}<<{h}", "{h}>>{o}", "{o}>>{h}", "{h}&{o}", "{h}|{o}"].into_iter().map(String::from));
                }
                if has_floorceil_brackets(ev) {
                    forms.extend(["⌊{h}⌋", "⌈{h}⌉"].into_iter().map(String::from));
                }
                for (sp, f) in spellings_for(ev) {
                    match f.arity() {
                        Arity::One => forms.push(format!("{}({{h}})", sp)),
                        Arity::Two => {
                            forms.push(format!("{}({{h}},{{o}})", sp));
                            forms.push(format!("{}({{o}},{{h}})", sp));
                        }
                        Arity::Var => {
                            forms.push(format!("{}({{h}},{{o}})", sp));
                            forms.push(format!("{}({{o}},{{h}},1)", sp));
                        }
                    }
                }
                let es: Vec<&str> = match ev {
                    Ev::I64 => vec!["1+1", "4/2", "6-4", "3-1", "1+2", "10-3", "5-5", "0-2", "2*2", "0-1", "20+1", "8*8"],
                    _ => vec!["1+1", "4/2", "6-4", "3-1", "1+2", "10-3", "5-5", "0-2", "0.5+0.5", "1/2", "1/4+1/4", "0-0.5", "1.5*2", "0*(0-1)"],
                };
                let mut others: Vec<String> = match ev {
                    Ev::I64 => vec!["0", "1", "2", "3", "10", "63", "64", "(0-1)", "(0-2)", "9223372036854775807", "(0-9223372036854775807-1)", "4294967296", "3037000500"].into_iter().map(String::from).collect(),
                    _ => vec!["0", "1", "2", "3", "10", "0.5", "2.5", "(0-1)", "(0-2)", "(0-0.5)", "(1/0)", "(0-1/0)", "(0/0)", "(0*(0-1))", "1000000", "0.000001", "9007199254740993", "170", "171"].into_iter().map(String::from).collect(),
                };
                let n_rand = ctx.tier.pick(60usize, 1500);
                let mut rr = ctx.rng(&format!("others/{}", ev.name()), 0);
                for _ in 0..n_rand {
                    others.push(match ev {
                        Ev::I64 => format!("{}", rr.below(100_000)),
                        _ => {
                            if rr.chance(1, 2) {
                                format!("{}", 1 + rr.below(10_000))
                            } else {
                                format!("{}.{:03}", rr.below(50), rr.below(1000))
                            }
                        }
                    });
                }
                let mut k = 0u64;
                for form in &forms {
                    let two = form.contains("{o}");
                    for e in &es {
                        for (oi, o) in others.iter().enumerate() {
                            if !two && oi > 0 {
                                break;
                            }
                            k += 1;
                            if !ctx.mine() {
                                continue;
                            }
                            let _ = k;
                            let s_hole = form.replace("{h}", "@").replace("{o}", o);
                            let s_e = form.replace("{h}", &format!("({})", e)).replace("{o}", o);
                            let case = Case { ev, kind: "substitute".into(), exprs: vec![s_e, s_hole, e.to_string()], phs: vec![Val::zero(ev)], extra: String::new() };
                            ctx.check(&case, &|c, st| self.judge(c, st));
                        }
                    }
                }
            }
            // three-level shapes: the context is any one-argument construct, E = `A op B` over operand
            // shapes (squares in every spelling, negations, calls) with values whose arithmetic rounds or
            // overflows - a context that looks at the shape of its operand instead of its value is caught
            // (seeded change C20-r9: sqrt of a sum of two explicit squares computed by hypot)
            for (c, e) in shape_family(ev).into_iter().chain(repeated_operand_family(ev)) {
                if !c.contains("{h}") || c == "{h}" || !ctx.mine() {
                    continue;
                }
                let s_hole = c.replace("{h}", "@");
                let s_e = c.replace("{h}", &format!("({})", e));
                let case = Case { ev, kind: "substitute".into(), exprs: vec![s_e, s_hole, e.clone()], phs: vec![Val::zero(ev)], extra: "shape".into() };
                ctx.check(&case, &|c, st| {
                    let v = self.judge(c, st);
                    if let Verdict::Pass { .. } = v {
                        st.inc("shape_triples_equal");
                    }
                    v
                });
            }
            // E = one construct repeated many times, in a few one-level contexts: the context must see
            // the value of E whatever E's size or nesting
            for (fam, k, e) in repetitions(ev, rep_cap(&ctx.config) - 2) {
                for form in ["({h})*2", "{h}+1", "abs({h})", "1-{h}"] {
                    if !ctx.mine() {
                        continue;
                    }
                    let s_hole = form.replace("{h}", "@");
                    let s_e = form.replace("{h}", &format!("({})", e));
                    let case = Case { ev, kind: "substitute".into(), exprs: vec![s_e, s_hole, e.clone()], phs: vec![Val::zero(ev)], extra: format!("{} x{}", fam, k) };
                    ctx.check(&case, &|c, st| {
                        let v = self.judge(c, st);
                        if let Verdict::Pass { .. } = v {
                            st.inc("repetition_triples_equal");
                        }
                        v
                    });
                }
            }
            let small0 = small_leaf(ev);
            let cfg = GenCfg::full(ev, &leaf);
            let cfg_small = GenCfg::full(ev, &small0);
            let n = ctx.tier.pick(80_000u64, 1_500_000);
            for i in 0..n {
                if !ctx.mine() {
                    continue;
                }
                let mut rng = ctx.rng(&format!("pair/{}", ev.name()), i);
                let c = if rng.chance(1, 2) { &cfg } else { &cfg_small };
                let (d1, d2) = (1 + rng.below(4), 1 + rng.below(4));
                let (e_ast, e) = gen_expr(c, &mut rng, d1);
                let (c_ast, _) = gen_expr(c, &mut rng, d2);
                // choose a leaf of the context as the hole
                let is_leaf = |a: &Ast| if matches!(a, Ast::Lit(_) | Ast::ImLit(_) | Ast::Pi(_) | Ast::E) { Some(Ast::Ans) } else { None };
                let leaves = count_matching(&c_ast, &is_leaf);
                if leaves == 0 {
                    continue;
                }
                let k = rng.below(leaves);
                let with_hole = map_nth(&c_ast, k, &mut 0, &is_leaf);
                let with_e = map_nth(&c_ast, k, &mut 0, &|a: &Ast| is_leaf(a).map(|_| Ast::Group(Br::Round, Box::new(e_ast.clone()))));
                let (s_hole, s_e) = (with_hole.render(), with_e.render());
                if s_e.chars().count() > 600 {
                    continue;
                }
                // hole in operand or argument position: both texts must be sentences with the same tree
                // up to the hole (otherwise `(E)` and `@` differ in implicit-product eligibility)
                match (parse(ev, &s_hole), parse(ev, &s_e)) {
                    (Ok(a), Ok(b)) if !a.unspec && !b.unspec && a.ast == with_hole && b.ast == with_e => {}
                    _ => continue,
                }
                let case = Case { ev, kind: "substitute".into(), exprs: vec![s_e, s_hole, e], phs: vec![Val::zero(ev)], extra: String::new() };
                ctx.check(&case, &|c, st| self.judge(c, st));
            }
        }
    }
    fn judge(&self, case: &Case, st: &mut Stats) -> Verdict {
        let ev = case.ev;
        let (s_e, s_hole, e) = (&case.exprs[0], &case.exprs[1], &case.exprs[2]);
        let z = Val::zero(ev);
        let v = match sut::call(ev, e, &z) {
            Outcome::Ok(v) => v,
            Outcome::Err(_) => return Verdict::Skip("subexpression-is-err"),
            _ => return Verdict::Skip("panic-or-budget"),
        };
        let a = sut::call(ev, s_e, &z);
        let b = sut::call(ev, s_hole, &v);
        if matches!(a, Outcome::Panic(..) | Outcome::Budget(_)) || matches!(b, Outcome::Panic(..) | Outcome::Budget(_)) {
            return Verdict::Skip("panic-or-budget");
        }
        let _ = HOLE;
        if a.same(&b) {
            st.inc(if a.is_ok() { "triples_equal_ok" } else { "triples_equal_err" });
            if let Ok(p) = parse(ev, s_hole) {
                // which operation sees the hole
                let mut parent = String::from("root");
                find_parent(&p.ast, "root", &mut parent);
                st.cover(&format!("hole_parents.{}", ev.name()), &parent);
            }
            st.inc(if v.is_finite() { "subvalues.finite" } else { "subvalues.nonfinite" });
            pass(true)
        } else {
            let mut parent = String::from("root");
            if let Ok(p) = parse(ev, s_hole) {
                find_parent(&p.ast, "root", &mut parent);
            }
            viol("context-sees-more-than-the-value", format!("C20|{}|context-sees-more-than-the-value|{}", ev.name(), parent), format!("E = {} -> {} ; C[(E)] = {} -> {} ; C[@] = {} with @ = that value -> {}", e, v.show(), s_e, a.show(), s_hole, b.show()))
        }
    }
    fn rule(&self) -> &'static str {
        "one-level contexts, systematically (the hole as operand of every prefix/postfix operator, as each argument of every function, on each side of every binary operator) x a pool of small computed subexpressions x special, boundary and random other operands; random pairs (context C, subexpression E) of well-formed expressions without `@` (depth<=4 each, hostile and small literal pools, every operator, function, aggregate and implicit product of the evaluator): a leaf of C becomes the hole; the pair is kept when both C[@] and C[(E)] are sentences whose trees differ only at the hole; three calls through the public API - E alone, C[(E)], and C[@] with the placeholder set to E's value - and the last two must have the same outcome (bit for bit, or Err in both); non-trivial = E evaluated to Ok and both contexts were evaluated; distinct = distinct triple"
    }
    fn assumptions(&self) -> Vec<&'static str> {
        vec!["pairs whose subexpression is Err, or whose hole would change implicit-product eligibility, are skipped as the statement excludes them"]
    }
    fn floors(&self, _t: Tier) -> Vec<(String, u64)> {
        vec![("triples_equal_ok".into(), 20_000), ("triples_equal_err".into(), 200), ("set:hole_parents.f64".into(), 30), ("set:hole_parents.number".into(), 30), ("set:hole_parents.i64".into(), 20)]
    }
}

fn find_parent(ast: &Ast, parent: &str, out: &mut String) {
    if matches!(ast, Ast::Ans) {
        *out = parent.to_string();
        return;
    }
    let me = ast.tag();
    for c in ast.children() {
        find_parent(c, &me, out);
    }
}
