//! C14 — `@` denotes exactly the caller's placeholder value.

use super::c08::cpx_expr;
use super::c09::num_expr;
use super::c13::map_nth;
use super::refjudge::*;
use super::Monitor;
use crate::core::*;
use crate::gen::*;
use crate::sut;
use crate::syntax::*;
use crate::val::{Ev, Outcome, Val, ALL_EV};

pub struct C14;

/// a bracketed literal expression that evaluates to exactly `p` (bits, variant, scale), if one exists
pub fn value_expr(p: &Val) -> Option<String> {
    let wrap = |s: String| if s.starts_with('(') { s } else { format!("({})", s) };
    match p {
        Val::F(x) => f64_expr(*x).map(wrap),
        Val::I(x) => Some(wrap(i64_expr(*x))),
        Val::D(d) => {
            if d.mant == 0 && d.neg {
                None
            } else {
                Some(wrap(dec_expr(d)))
            }
        }
        Val::C(a, b) => {
            if a.is_finite() && b.is_finite() && *a != 0.0 && *b != 0.0 {
                Some(cpx_expr(*a, *b))
            } else {
                None
            }
        }
        v => num_expr(v).map(wrap),
    }
}

/// the extreme values of an evaluator's type
pub fn extreme_placeholders(ev: Ev) -> Vec<Val> {
    use crate::val::DecV;
    match ev {
        Ev::F64 => vec![Val::F(f64::MAX), Val::F(f64::MIN), Val::F(f64::INFINITY), Val::F(f64::NEG_INFINITY), Val::F(f64::NAN), Val::F(-0.0), Val::F(5e-324), Val::F(9007199254740993.0)],
        Ev::I64 => vec![Val::I(i64::MIN), Val::I(i64::MAX), Val::I(i64::MIN + 1), Val::I(-1), Val::I(i64::MAX - 1)],
        Ev::Dec => vec![
            Val::D(DecV { neg: false, mant: (1u128 << 96) - 1, scale: 0 }),
            Val::D(DecV { neg: true, mant: (1u128 << 96) - 1, scale: 0 }),
            Val::D(DecV { neg: false, mant: (1u128 << 96) - 1, scale: 28 }),
            Val::D(DecV { neg: true, mant: 1, scale: 28 }),
            Val::D(DecV { neg: true, mant: 0, scale: 0 }),
        ],
        Ev::Cpx => vec![Val::C(f64::MAX, f64::MAX), Val::C(f64::NAN, 0.0), Val::C(0.0, f64::INFINITY), Val::C(-0.0, -0.0), Val::C(5e-324, -5e-324)],
        Ev::Num => vec![Val::NI(i64::MIN), Val::NI(i64::MAX), Val::NI(i64::MIN + 1), Val::NF(f64::MAX), Val::NF(f64::NAN), Val::NF(-0.0), Val::NF(f64::NEG_INFINITY), Val::NF(-9223372036854775808.0)],
    }
}

impl Monitor for C14 {
    fn id(&self) -> &'static str {
        "C14"
    }
    fn run(&self, ctx: &mut Ctx) {
        for ev in ALL_EV {
            let phs = ph_pool(ev);
            // `@` alone and in identity contexts returns the caller's bits
            for p in &phs {
                for s in ["@", "(@)", " @ ", "((@))", "+@"] {
                    if ctx.mine() {
                        ctx.check(&Case::new(ev, "alone", s, *p), &|c, st| self.judge(c, st));
                    }
                }
            }
            // placeholders that compare equal but are different values, fed back to back to the same
            // expression: a memo keyed on == or on the numeric value would hand back the wrong one
            for group in confusable_groups(ev) {
                for s in ["@", "1/@", "@*1", "@+0", "abs(@)-@", "sqrt(@)", "-@", "@/3", "min(@,@)", "@^1"] {
                    for rot in 0..group.len() {
                        if ctx.mine() {
                            let mut g = group.clone();
                            g.rotate_left(rot);
                            let case = Case { ev, kind: "confusable-sequence".into(), exprs: vec![s.to_string()], phs: g, extra: String::new() };
                            ctx.check(&case, &|c, st| self.judge(c, st));
                        }
                    }
                }
            }
            // not part of implicit multiplication
            for s in ["2@", "@2", "@(2)", "(2)@", "@@", "@abs(1)", "abs(1)@", "2(@)@", "@.5"] {
                if ctx.mine() {
                    ctx.check(&Case::new(ev, "no-juxtaposition", s, phs[1 % phs.len()]), &|c, st| self.judge(c, st));
                }
            }
            // @ as the left and as the right operand of every binary operator and two-argument function,
            // against a small pool of other operands and a dense pool of small placeholder values of
            // every variant (whole and fractional, Integer and Float, both signs)
            {
                let mut ops: Vec<String> = vec!["{a}+{b}", "{a}-{b}", "{a}*{b}", "{a}/{b}", "{a}^{b}", "-{a}^{b}", "({a})^{b}"].into_iter().map(String::from).collect();
                if has_fact_mod(ev) {
                    ops.push("{a}%{b}".into());
                }
                if has_bitops(ev) {
                    ops.extend(["{a}<<{b}", "{a}>>{b}", "{a}&{b}", "{a}|{b}"].into_iter().map(String::from));
                }
                for (sp, f) in spellings_for(ev) {
                    if f.arity() == Arity::Two {
                        ops.push(format!("{}({{a}},{{b}})", sp));
                    }
                }
                let others: Vec<&str> = match ev {
                    Ev::I64 => vec!["2", "3", "7", "10", "2147483647", "3037000499", "63"],
                    Ev::Cpx => vec!["2", "3", "0.5", "2i", "(1+i)", "7"],
                    _ => vec!["2", "3", "7", "10", "2147483647", "3037000499", "0.5", "2.5"],
                };
                let mut dense: Vec<Val> = vec![];
                for k in -6i64..=66 {
                    match ev {
                        Ev::F64 => dense.extend([Val::F(k as f64), Val::F(k as f64 + 0.5)]),
                        Ev::I64 => dense.push(Val::I(k)),
                        Ev::Dec => dense.extend([Val::D(crate::val::DecV { neg: k < 0, mant: k.unsigned_abs() as u128, scale: 0 }), Val::D(crate::val::DecV { neg: k < 0, mant: k.unsigned_abs() as u128 * 10 + 5, scale: 1 })]),
                        Ev::Cpx => dense.extend([Val::C(k as f64, 0.0), Val::C(0.0, k as f64), Val::C(k as f64, 1.0)]),
                        Ev::Num => dense.extend([Val::NI(k), Val::NF(k as f64), Val::NF(k as f64 + 0.5)]),
                    }
                }
                for op in &ops {
                    for other in &others {
                        for (pi, p) in dense.iter().enumerate() {
                            for side in 0..2 {
                                if !ctx.mine() {
                                    continue;
                                }
                                if ctx.tier == Tier::Quick && (pi + side) % 2 == 1 {
                                    continue;
                                }
                                let lit = match value_expr(p) {
                                    Some(l) => l,
                                    None => continue,
                                };
                                let (s, ts) = if side == 0 { (op.replace("{a}", "@").replace("{b}", other), op.replace("{a}", &lit).replace("{b}", other)) } else { (op.replace("{a}", other).replace("{b}", "@"), op.replace("{a}", other).replace("{b}", &lit)) };
                                ctx.check(&Case::pair(ev, "substitution", &s, *p, &ts, Val::zero(ev)), &|c, st| self.judge(c, st));
                            }
                        }
                    }
                }
            }
            // long flat chains (60..260 terms, several hundred characters) of `@`, small and boundary
            // literals under signs and every chain operator of the evaluator, with extreme placeholders:
            // a streamlined path for long simple inputs must read `@` exactly as the tree walk does
            // (seeded change C14-r8: flat sums of 256 characters or more summed without the parser)
            {
                let n = ctx.tier.pick(6_000u64, 120_000);
                for i in 0..n {
                    if !ctx.mine() {
                        continue;
                    }
                    let mut rng = ctx.rng(&format!("chain/{}", ev.name()), i);
                    let joins: Vec<&str> = match rng.below(4) {
                        0 => vec!["+", "-"],
                        1 => vec!["+", "-", "+-", "--", "-+"],
                        2 if ev != Ev::Cpx => vec!["*", "/"],
                        2 => vec!["*"],
                        _ => vec!["+", "-", "*"],
                    };
                    let lits: Vec<&str> = match ev {
                        Ev::Cpx => vec!["0", "1", "1", "2", "0.5", "i", "2i", "3"],
                        Ev::I64 => vec!["0", "1", "1", "2", "3", "7", "10"],
                        _ => vec!["0", "1", "1", "2", "0.5", "3", "0.25"],
                    };
                    let big: Vec<&str> = match ev {
                        Ev::I64 => vec!["9223372036854775807", "4294967296", "9223372036854775806"],
                        Ev::Cpx => vec!["1000000"],
                        _ => vec!["9007199254740993", "9223372036854775807", "100000000000000000000"],
                    };
                    let n_terms = if rng.chance(1, 3) { 3 + rng.below(30) } else { 60 + rng.below(200) };
                    // one to three occurrences of `@`, at most one boundary literal: the chain's value should
                    // be decided by the placeholder, not drown in overflow
                    let at_pos: Vec<usize> = (0..1 + rng.below(3)).map(|_| rng.below(n_terms)).collect();
                    let big_pos = if rng.chance(1, 4) { rng.below(n_terms) } else { usize::MAX };
                    let mut t = String::new();
                    for k in 0..n_terms {
                        if k > 0 {
                            t.push_str(*rng.pick(&joins));
                        } else if rng.chance(1, 3) {
                            t.push('-');
                        }
                        if at_pos.contains(&k) {
                            t.push('@');
                        } else if k == big_pos {
                            t.push_str(*rng.pick(&big));
                        } else {
                            t.push_str(*rng.pick(&lits));
                        }
                    }
                    // extreme placeholders half of the time
                    let p = if rng.chance(1, 2) { *rng.pick(&phs) } else { extreme_placeholders(ev)[rng.below(extreme_placeholders(ev).len())] };
                    let long = t.chars().count() >= 256;
                    let case = match value_expr(&p) {
                        Some(lit) => Case::pair(ev, "substitution", &t, p, &t.replace('@', &lit), Val::zero(ev)),
                        None => Case::new(ev, "bound-reference", &t, p),
                    };
                    ctx.check(&case, &|c, st| {
                        let v = self.judge(c, st);
                        if let Verdict::Pass { .. } = v {
                            st.inc(if long { "chains_confirmed.256+chars" } else { "chains_confirmed.short" });
                        }
                        v
                    });
                }
            }
            // expressions with 1..n occurrences of @ : literal substitution / reference with @ bound
            let leaf0 = hostile_leaf(ev);
            let leaf = move |rng: &mut crate::prng::Rng| -> Ast {
                if rng.chance(1, 3) {
                    Ast::Ans
                } else {
                    leaf0(rng)
                }
            };
            let cfg = GenCfg::full(ev, &leaf);
            let n = ctx.tier.pick(60_000u64, 1_000_000);
            for i in 0..n {
                if !ctx.mine() {
                    continue;
                }
                let mut rng = ctx.rng(&format!("tree/{}", ev.name()), i);
                let depth = 1 + rng.below(5);
                let (ast, s) = gen_expr(&cfg, &mut rng, depth);
                if !ast.has_ans() {
                    continue;
                }
                let p = *rng.pick(&phs);
                match value_expr(&p) {
                    Some(lit) => {
                        // replace every @ by the literal expression
                        let lit_ast = match parse(ev, &lit) {
                            Ok(x) => x.ast,
                            Err(_) => continue,
                        };
                        let mut t = ast.clone();
                        loop {
                            let f = |a: &Ast| if matches!(a, Ast::Ans) { Some(lit_ast.clone()) } else { None };
                            if super::c13::count_matching(&t, &f) == 0 {
                                break;
                            }
                            t = map_nth(&t, 0, &mut 0, &f);
                        }
                        let ts = t.render();
                        if ts.chars().count() <= 4000 {
                            ctx.check(&Case::pair(ev, "substitution", &s, p, &ts, Val::zero(ev)), &|c, st| self.judge(c, st));
                        }
                    }
                    None => {
                        ctx.check(&Case::new(ev, "bound-reference", &s, p), &|c, st| self.judge(c, st));
                    }
                }
            }
        }
    }
    fn judge(&self, case: &Case, st: &mut Stats) -> Verdict {
        let ev = case.ev;
        let s = &case.exprs[0];
        match case.kind.as_str() {
            "alone" => {
                let o = sut::call(ev, s, &case.phs[0]);
                match &o {
                    Outcome::Ok(v) if v.same_bits(&case.phs[0]) => {
                        st.inc("identity_confirmed");
                        pass(true)
                    }
                    Outcome::Ok(v) => viol("placeholder-altered", format!("C14|{}|placeholder-altered|alone", ev.name()), format!("{} with placeholder {} returned {}", s, case.phs[0].show(), v.show())),
                    Outcome::Err(m) => viol("err-where-value", format!("C14|{}|err-where-value|alone", ev.name()), format!("{} returned Err({})", s, m)),
                    _ => Verdict::Skip("panic-or-budget"),
                }
            }
            "confusable-sequence" => {
                // each call in the sequence must equal the same expression with @ spelled out (a different
                // text, so a cache keyed on the expression cannot confuse the two), or the bound reference
                for p in &case.phs {
                    let o = sut::call(ev, s, p);
                    if matches!(o, Outcome::Panic(..) | Outcome::Budget(_)) {
                        return Verdict::Skip("panic-or-budget");
                    }
                    if s == "@" {
                        match &o {
                            Outcome::Ok(v) if v.same_bits(p) && exact_nan(v, p) => {}
                            _ => return viol("placeholder-altered", format!("C14|{}|placeholder-altered|sequence", ev.name()), format!("in the sequence {:?}, `@` with placeholder {} returned {}", case.phs.iter().map(|x| x.show()).collect::<Vec<_>>(), p.show(), o.show())),
                        }
                        continue;
                    }
                    if let Some(lit) = value_expr(p) {
                        let t = s.replace('@', &lit);
                        let b = sut::call(ev, &t, &Val::zero(ev));
                        if !matches!(b, Outcome::Panic(..) | Outcome::Budget(_)) && !o.same(&b) {
                            return viol("placeholder-not-the-value", format!("C14|{}|placeholder-not-the-value|sequence", ev.name()), format!("in the sequence {:?}: {} with @={} -> {} but {} -> {}", case.phs.iter().map(|x| x.show()).collect::<Vec<_>>(), s, p.show(), o.show(), t, b.show()));
                        }
                    } else if let Ok(pp) = parse(ev, s) {
                        if let RefVerdict::Bad(c, d) = judge_ref(ev, &pp.ast, p, &o, false) {
                            return viol(c, format!("C14|{}|{}|sequence", ev.name(), c), format!("in the sequence {:?}: {} with @={} : {}", case.phs.iter().map(|x| x.show()).collect::<Vec<_>>(), s, p.show(), d));
                        }
                    }
                }
                st.inc("confusable_sequences_confirmed");
                pass(true)
            }
            "no-juxtaposition" => {
                if parse(ev, s).is_ok() {
                    return Verdict::Skip("accepted-by-reference");
                }
                match sut::call(ev, s, &case.phs[0]) {
                    Outcome::Ok(v) => viol("juxtaposition-accepted", format!("C14|{}|juxtaposition-accepted|{}", ev.name(), s), format!("{} evaluated to {}", s, v.show())),
                    Outcome::Err(_) => pass(true),
                    _ => Verdict::Skip("panic-or-budget"),
                }
            }
            "substitution" => {
                let a = sut::call(ev, s, &case.phs[0]);
                let b = sut::call(ev, &case.exprs[1], &case.phs[1]);
                if matches!(a, Outcome::Panic(..) | Outcome::Budget(_)) || matches!(b, Outcome::Panic(..) | Outcome::Budget(_)) {
                    return Verdict::Skip("panic-or-budget");
                }
                if a.same(&b) {
                    st.inc(if a.is_ok() { "substitutions_equal_ok" } else { "substitutions_equal_err" });
                    st.max("max_placeholder_occurrences", s.matches('@').count() as f64);
                    pass(true)
                } else {
                    viol("placeholder-not-the-value", format!("C14|{}|placeholder-not-the-value|substitution", ev.name()), format!("{} with @={} -> {} but {} -> {}", s, case.phs[0].show(), a.show(), case.exprs[1], b.show()))
                }
            }
            _ => {
                // non-expressible placeholder (NaN, inf, -0 parts ...): reference evaluation with @ bound
                let p = match parse(ev, s) {
                    Ok(p) if !p.unspec => p,
                    _ => return Verdict::Skip("not-a-specified-sentence"),
                };
                let o = sut::call(ev, s, &case.phs[0]);
                let rv = judge_ref(ev, &p.ast, &case.phs[0], &o, false);
                if let RefVerdict::Ok { .. } = rv {
                    st.inc("bound_reference_confirmed");
                }
                to_verdict("C14", ev, &format!("bound|{}", shape_of(&p.ast)), rv, false)
            }
        }
    }
    fn rule(&self) -> &'static str {
        "`@`, `(@)`, `+@` with every value of the hostile placeholder pool (NaN payloads, +-inf, -0.0, i64 extremes, Decimal::MAX, zeros of every scale and sign, both Number variants, complex parts incl. non-finite) must return the caller's bits/variant/scale; `@` adjacent to a literal, group, call or another `@` must be Err; random trees of depth<=5 with 1..n occurrences of `@`: when the placeholder can be written as a bracketed literal expression the call must equal (bit for bit) the call with every `@` replaced by that expression, otherwise it is judged against the reference evaluation with `@` bound directly; non-trivial = evaluated pair / reference verdict; distinct = distinct case"
    }
    fn assumptions(&self) -> Vec<&'static str> {
        vec!["a Decimal negative zero, complex parts that are zero or non-finite, and non-finite doubles have no literal spelling and go through the bound reference"]
    }
    fn floors(&self, _t: Tier) -> Vec<(String, u64)> {
        vec![("confusable_sequences_confirmed".into(), 100), ("identity_confirmed".into(), 500), ("substitutions_equal_ok".into(), 5_000), ("bound_reference_confirmed".into(), 200)]
    }
}

/// NaN placeholders must come back with their own payload ("bit-identical ... including NaN")
fn exact_nan(a: &Val, b: &Val) -> bool {
    match (a, b) {
        (Val::F(x), Val::F(y)) | (Val::NF(x), Val::NF(y)) => x.to_bits() == y.to_bits(),
        (Val::C(x, y), Val::C(z, w)) => x.to_bits() == z.to_bits() && y.to_bits() == w.to_bits(),
        _ => true,
    }
}

/// groups of placeholders that are equal under == / numerically, yet different values
pub fn confusable_groups(ev: crate::val::Ev) -> Vec<Vec<Val>> {
    use crate::val::{DecV, Ev};
    let d = |neg, mant, scale| Val::D(DecV { neg, mant, scale });
    match ev {
        Ev::F64 => vec![vec![Val::F(0.0), Val::F(-0.0)], vec![Val::F(f64::NAN), Val::F(f64::from_bits(0x7ff8_0000_0000_0001)), Val::F(f64::from_bits(0xfff8_0000_0000_0000))], vec![Val::F(1.0), Val::F(1.0000000000000002)]],
        Ev::I64 => vec![vec![Val::I(0), Val::I(4294967296), Val::I(-4294967296)], vec![Val::I(i64::MAX), Val::I(i64::MIN), Val::I(-1)]],
        Ev::Dec => vec![vec![d(false, 1, 0), d(false, 10, 1), d(false, 100, 2)], vec![d(false, 0, 0), d(true, 0, 0), d(false, 0, 28)], vec![d(false, 25, 1), d(false, 250, 2)]],
        Ev::Cpx => vec![vec![Val::C(0.0, 0.0), Val::C(-0.0, 0.0), Val::C(0.0, -0.0)], vec![Val::C(1.0, 2.0), Val::C(1.0, -2.0)], vec![Val::C(f64::NAN, 1.0), Val::C(f64::from_bits(0x7ff8_0000_0000_0001), 1.0)]],
        Ev::Num => vec![vec![Val::NI(5), Val::NF(5.0)], vec![Val::NI(0), Val::NF(0.0), Val::NF(-0.0)], vec![Val::NF(f64::NAN), Val::NF(f64::from_bits(0x7ff8_0000_0000_0001))]],
    }
}
