//! Shared hostile workload (W1–W5) used by the monitors that quantify over all inputs.

use crate::core::{Case, Ctx};
use crate::gen::*;
use crate::val::{Ev, Val};

pub struct Sizes {
    /// exhaustive token sequences over the full vocabulary up to this length
    pub w1_full: usize,
    /// exhaustive token sequences over the class vocabulary up to this length
    pub w1_class: usize,
    /// exhaustive character strings up to this length
    pub w2: usize,
    /// random trees per evaluator
    pub w3: u64,
    /// mutations per evaluator
    pub w4: u64,
    pub bombs: bool,
}

fn ph_at(pool: &[Val], i: u64) -> Val {
    pool[(crate::prng::fnv(&i.to_le_bytes()) % pool.len() as u64) as usize]
}

/// Enumerate the hostile workload for `ev`; `f` is called only for cases this shard owns.
pub fn hostile(ctx: &mut Ctx, ev: Ev, sz: &Sizes, kind_prefix: &str, f: &mut dyn FnMut(&mut Ctx, Case)) {
    let pool = ph_pool(ev);
    if sz.bombs {
        for (i, b) in bombs(ev).iter().enumerate() {
            if b.contains('@') && b.chars().count() <= 24 {
                // short bombs that read the placeholder meet every value of the hostile pool
                for ph in &pool {
                    if ctx.mine() {
                        f(ctx, Case::new(ev, &format!("{}w5", kind_prefix), b, *ph));
                    }
                }
                continue;
            }
            for k in 0..3u64 {
                if ctx.mine() {
                    let ph = ph_at(&pool, i as u64 * 3 + k);
                    f(ctx, Case::new(ev, &format!("{}w5", kind_prefix), b, ph));
                }
            }
        }
    }
    if sz.bombs {
        for (i, b) in int_grid(ev).iter().enumerate() {
            if ctx.mine() {
                f(ctx, Case::new(ev, &format!("{}w5", kind_prefix), b, ph_at(&pool, i as u64)));
            }
        }
    }
    // W1
    for (full, maxlen) in [(true, sz.w1_full), (false, sz.w1_class)] {
        let vocab = w1_vocab(ev, full, ctx.seed);
        for len in 1..=maxlen {
            if full && len > sz.w1_full {
                break;
            }
            let mut owned: Vec<Vec<usize>> = vec![];
            for_each_seq(vocab.len(), len, &mut |idx| {
                if ctx.mine() {
                    owned.push(idx.to_vec());
                }
                if owned.len() >= 4096 {
                    for o in owned.drain(..) {
                        let s: String = o.iter().map(|i| vocab[*i].as_str()).collect();
                        let ph = ph_at(&pool, s.len() as u64 + o[0] as u64);
                        f(ctx, Case::new(ev, &format!("{}w1", kind_prefix), &s, ph));
                    }
                }
            });
            for o in owned.drain(..) {
                let s: String = o.iter().map(|i| vocab[*i].as_str()).collect();
                let ph = ph_at(&pool, s.len() as u64 + o[0] as u64);
                f(ctx, Case::new(ev, &format!("{}w1", kind_prefix), &s, ph));
            }
        }
    }
    // W2
    let alpha = w2_alphabet();
    for len in 1..=sz.w2 {
        let mut owned: Vec<Vec<usize>> = vec![];
        for_each_seq(alpha.len(), len, &mut |idx| {
            if ctx.mine() {
                owned.push(idx.to_vec());
            }
            if owned.len() >= 4096 {
                for o in owned.drain(..) {
                    let s: String = o.iter().map(|i| alpha[*i]).collect();
                    f(ctx, Case::new(ev, &format!("{}w2", kind_prefix), &s, pool[0]));
                }
            }
        });
        for o in owned.drain(..) {
            let s: String = o.iter().map(|i| alpha[*i]).collect();
            f(ctx, Case::new(ev, &format!("{}w2", kind_prefix), &s, pool[0]));
        }
    }
    // W3 + W4
    let leaf = hostile_leaf(ev);
    let cfg = GenCfg::full(ev, &leaf);
    for i in 0..sz.w3 {
        if ctx.mine() {
            let mut rng = ctx.rng(&format!("w3/{}", ev.name()), i);
            let depth = 1 + rng.below(6);
            let (_, s) = gen_expr(&cfg, &mut rng, depth);
            let ph = *rng.pick(&pool);
            f(ctx, Case::new(ev, &format!("{}w3", kind_prefix), &s, ph));
        }
    }
    // long inputs: several random subtrees chained up to the 256-character bound
    for i in 0..sz.w3 / 8 {
        if ctx.mine() {
            let mut rng = ctx.rng(&format!("w3long/{}", ev.name()), i);
            let ops: Vec<&str> = match ev {
                Ev::I64 => vec!["+", "-", "*", "/", "%", "^", "&", "|", "<<", ">>"],
                Ev::Cpx => vec!["+", "-", "*", "/", "^"],
                _ => vec!["+", "-", "*", "/", "%", "^"],
            };
            let mut s = String::new();
            loop {
                let d = 1 + rng.below(4);
                let (_, part) = gen_expr(&cfg, &mut rng, d);
                let sep = if s.is_empty() { "" } else { *rng.pick(&ops) };
                if s.chars().count() + sep.len() + part.chars().count() > 256 {
                    break;
                }
                s.push_str(sep);
                s.push_str(&part);
            }
            if !s.is_empty() {
                let ph = *rng.pick(&pool);
                f(ctx, Case::new(ev, &format!("{}w3", kind_prefix), &s, ph));
            }
        }
    }
    for i in 0..sz.w4 {
        if ctx.mine() {
            let mut rng = ctx.rng(&format!("w4/{}", ev.name()), i);
            let depth = 1 + rng.below(5);
            let (_, s) = gen_expr(&cfg, &mut rng, depth);
            let m = mutate(&s, &mut rng, ev);
            let ph = *rng.pick(&pool);
            f(ctx, Case::new(ev, &format!("{}w4", kind_prefix), &m, ph));
        }
    }
}
