//! C05 — eval_f64 is IEEE-754 double arithmetic; non-finite results are values.

use super::refjudge::*;
use super::Monitor;
use crate::core::*;
use crate::gen::*;
use crate::prng::Rng;
use crate::sut;
use crate::syntax::*;
use crate::val::{Ev, Val};

pub struct C05;

/// expression text for an operand: a literal expression when finite, `@` otherwise (caller binds the placeholder)
fn operand(x: f64) -> (String, Option<f64>) {
    match f64_expr(x) {
        // values below one are also written in the leading-point form (.5 for 0.5)
        Some(s) if s.starts_with("0.") && s.len() % 2 == 0 => (s[1..].to_string(), None),
        Some(s) if s.starts_with("(-0.") && s.len() % 2 == 0 => (format!("(-{}", &s[3..]), None),
        Some(s) => (s, None),
        None => ("@".to_string(), Some(x)),
    }
}

impl Monitor for C05 {
    fn id(&self) -> &'static str {
        "C05"
    }
    fn run(&self, ctx: &mut Ctx) {
        let mut pool = f64_pool();
        pool.extend(f64_nonfinite());
        let ev = Ev::F64;
        // depth-1 sweep: binary forms
        let bins = ["{a}+{b}", "{a}-{b}", "{a}*{b}", "{a}/{b}", "{a}%{b}", "{a}^{b}", "mod({a},{b})", "pow({a},{b})"];
        for a in &pool {
            for b in &pool {
                for form in bins {
                    if !ctx.mine() {
                        continue;
                    }
                    let (sa, pa) = operand(*a);
                    let (sb, pb) = operand(*b);
                    // at most one distinct non-finite value can be bound to @
                    let ph = match (pa, pb) {
                        (Some(x), Some(y)) if x.to_bits() != y.to_bits() && !(x.is_nan() && y.is_nan()) => continue,
                        (Some(x), _) | (_, Some(x)) => x,
                        _ => 0.0,
                    };
                    let s = form.replace("{a}", &sa).replace("{b}", &sb);
                    let case = Case::new(ev, "depth1", &s, Val::F(ph));
                    ctx.check(&case, &|c, st| self.judge(c, st));
                }
            }
        }
        let uns = ["-{a}", "+{a}", "abs({a})", "floor({a})", "ceil({a})", "trunc({a})", "truncate({a})", "round({a})", "sqrt({a})", "⌊{a}⌋", "⌈{a}⌉", "{a}²", "{a}³", "{a}⁰", "{a}¹⁰", "--{a}", "-({a})+0", "{a}*pi", "{a}+e", "{a}/π", "@"];
        for a in &pool {
            for form in uns {
                if !ctx.mine() {
                    continue;
                }
                let (sa, pa) = operand(*a);
                let s = form.replace("{a}", &sa);
                let case = Case::new(ev, "depth1", &s, Val::F(pa.unwrap_or(*a)));
                ctx.check(&case, &|c, st| self.judge(c, st));
            }
        }
        // notable literals against the constants and against each other, in every binary operation and both
        // orders, alone and inside a small expression: conversion factors and round numbers are what a
        // constant-folding rewrite keys on (seeded change C05-r10: 180/pi folded to a 12-digit constant)
        {
            let notable = ["180", "360", "90", "45", "60", "3600", "1000", "1024", "100", "10", "2", "0.5", "57.2957795131", "0.0174532925199", "57.29577951308232", "0.017453292519943295", "3.141592653589793", "2.718281828459045", "6.283185307179586", "1.5707963267948966", "273.15", "2.54", "9.81", "1.8", "32", "12", "24", "7", "365"];
            let consts = ["pi", "π", "e", "(pi)", "(e)"];
            let ops = ["+", "-", "*", "/", "%", "^"];
            for n in notable {
                for c in consts {
                    for op in ops {
                        for (l, r) in [(n, c), (c, n)] {
                            for form in ["{x}", "({x})", "pi*({x})", "2*{x}", "{x}*3", "0.5+{x}", "sqrt({x})", "abs({x})", "-{x}"] {
                                if !ctx.mine() {
                                    continue;
                                }
                                let s = form.replace("{x}", &format!("{}{}{}", l, op, r));
                                ctx.check(&Case::new(ev, "notable", &s, Val::F(0.0)), &|c, st| self.judge(c, st));
                            }
                        }
                    }
                }
            }
        }
        // the same expression evaluated back to back with placeholders that are equal under == but
        // different doubles (0.0 / -0.0, NaN payloads, neighbours of 1)
        for group in super::c14::confusable_groups(ev) {
            for s in ["@", "1/@", "sqrt(@)", "-@", "@*1", "@+0", "abs(@)", "@%1", "@^1", "0-@", "@/@", "⌊@⌋", "pow(@,3)"] {
                for rot in 0..group.len() {
                    if ctx.mine() {
                        let mut g = group.clone();
                        g.rotate_left(rot);
                        let case = Case { ev, kind: "sequence".into(), exprs: vec![s.to_string()], phs: g, extra: String::new() };
                        ctx.check(&case, &|c, st| self.judge(c, st));
                    }
                }
            }
        }
        // three-level shapes f(A op B): an evaluator that recognises a shape (sqrt of a sum of squares,
        // a product feeding a sum) and takes a shortcut no longer applies the operations node by node
        for (c, e) in shape_family(ev).into_iter().chain(repeated_operand_family(ev)) {
            if ctx.mine() {
                let s = c.replace("{h}", &format!("({})", e));
                ctx.check(&Case::new(ev, "shape", &s, Val::F(0.0)), &|c, st| {
                    let v = self.judge(c, st);
                    if let Verdict::Pass { .. } = v {
                        st.inc("shapes_confirmed");
                    }
                    v
                });
            }
        }
        // random trees over the exact operations only
        let poolc = pool.clone();
        let leaf = move |rng: &mut Rng| -> Ast {
            let k = rng.below(100);
            if k < 15 {
                Ast::Ans
            } else if k < 22 {
                if rng.chance(1, 2) {
                    Ast::Pi(rng.chance(1, 2))
                } else {
                    Ast::E
                }
            } else if k < 60 {
                loop {
                    let x = *rng.pick(&poolc);
                    if let Some(s) = f64_literal(x.abs()) {
                        return Ast::Lit(s);
                    }
                }
            } else {
                // random finite double rendered exactly
                let bits = rng.next();
                let x = f64::from_bits(bits & 0x7fff_ffff_ffff_ffff);
                if x.is_finite() && x.abs() < 1e25 && x.abs() > 1e-25 {
                    let t = format!("{}", x);
                    // leading-point and trailing-point spellings of the same literal
                    if t.starts_with("0.") && rng.chance(1, 2) {
                        Ast::Lit(t[1..].to_string())
                    } else if !t.contains('.') && rng.chance(1, 4) {
                        Ast::Lit(format!("{}.", t))
                    } else {
                        Ast::Lit(t)
                    }
                } else {
                    Ast::Lit(rng.pick(&["1", "2", "3", "0.5", "10", "0.1", "7", "1.5"][..]).to_string())
                }
            }
        };
        let mut cfg = GenCfg::full(ev, &leaf);
        cfg.funcs = vec![Func::Abs, Func::Floor, Func::Ceil, Func::Trunc, Func::Round, Func::Sqrt, Func::Pow, Func::Mod];
        cfg.fact = false;
        cfg.degrad = false;
        cfg.max_len = 2000;
        let phs = ph_pool(ev);
        let n = ctx.tier.pick(150_000u64, 3_000_000);
        for i in 0..n {
            if ctx.mine() {
                let mut rng = ctx.rng("tree", i);
                let depth = 1 + rng.below(6);
                let (_, s) = gen_expr(&cfg, &mut rng, depth);
                let case = Case::new(ev, "tree", &s, *rng.pick(&phs));
                ctx.check(&case, &|c, st| self.judge(c, st));
            }
        }
    }
    fn judge(&self, case: &Case, st: &mut Stats) -> Verdict {
        let s = &case.exprs[0];
        let p = match parse(case.ev, s) {
            Ok(p) if !p.unspec => p,
            _ => return Verdict::Skip("not-a-specified-sentence"),
        };
        if case.kind == "sequence" {
            for ph in &case.phs {
                let o = sut::call(case.ev, s, ph);
                if let RefVerdict::Bad(c, d) = judge_ref(case.ev, &p.ast, ph, &o, false) {
                    return viol(c, format!("C05|f64|{}|sequence", c), format!("in the sequence {:?}: {} with @={} : {}", case.phs.iter().map(|x| x.show()).collect::<Vec<_>>(), s, ph.show(), d));
                }
            }
            st.inc("sequences_confirmed");
            return pass(true);
        }
        let o = sut::call(case.ev, s, &case.phs[0]);
        if let crate::val::Outcome::Ok(Val::F(v)) = &o {
            st.inc(if v.is_nan() {
                "results.nan"
            } else if v.is_infinite() {
                "results.inf"
            } else if *v == 0.0 {
                "results.zero"
            } else {
                "results.finite"
            });
        }
        let rv = judge_ref(case.ev, &p.ast, &case.phs[0], &o, false);
        if let RefVerdict::Ok { exact: true } = rv {
            st.cover("root_operations", &p.ast.peel().tag());
        }
        to_verdict("C05", case.ev, &shape_of(&p.ast), rv, true)
    }
    fn rule(&self) -> &'static str {
        "depth-1 sweep: every listed operation (+ - * / % ^ mod pow, unary minus/plus, abs floor ceil trunc round sqrt, floor/ceil brackets, superscripts, constants) over all pairs of the boundary pool (+-0, subnormals, 2^52/2^53 neighbours, 2^63, 2^64, halves, MAX, pi, e, NaN payloads, +-inf; finite values written as exact decimal expansions, non-finite ones bound to @); then random trees of depth<=6 over the same operations with literal leaves drawn from the pool and from random bit patterns; each result compared bit for bit (NaNs identified) with the reference applying the host C library operation at every node; non-trivial = the reference pins the value exactly; distinct = distinct (expression, placeholder)"
    }
    fn assumptions(&self) -> Vec<&'static str> {
        vec!["the host libm (fmod, pow, floor, ceil, trunc, round, sqrt, fabs through FFI) is the IEEE/C oracle", "literals are converted by Rust's correctly rounded str::parse in the reference; C19 checks literal conversion independently with big integers"]
    }
    fn floors(&self, _t: Tier) -> Vec<(String, u64)> {
        vec![("results.nan".into(), 500), ("results.inf".into(), 500), ("results.finite".into(), 10_000), ("set:root_operations".into(), 14)]
    }
}
