//! C16 — evaluation is a pure function of (expression, placeholder): histories and schedules.

use super::Monitor;
use crate::core::*;
use crate::gen::*;
use crate::prng::Rng;
use crate::sut;
use crate::val::{Ev, Outcome, Val, ALL_EV};
use std::collections::{BinaryHeap, HashMap};
use std::sync::atomic::{AtomicU64, Ordering};
use std::sync::{Arc, Mutex};

pub struct C16;

#[derive(Clone)]
pub struct Call {
    pub ev: Ev,
    pub expr: String,
    pub ph: Val,
}

impl Call {
    fn key(&self) -> String {
        format!("{}\u{1f}{}\u{1f}{}", self.ev.name(), self.expr, self.ph.enc())
    }
}

/// A history built to expose state: repeated expressions with changing placeholders back to back,
/// error-producing calls between good ones, the same text sent to different evaluators.
pub fn build_history(rng: &mut Rng, n: usize, pool: usize) -> Vec<Call> {
    let mut exprs: Vec<(Ev, String)> = vec![];
    for ev in ALL_EV {
        let leaf = hostile_leaf(ev);
        let cfg = GenCfg::full(ev, &leaf);
        // `pool` distinct expressions per evaluator: few (every one repeated often) or many (more than
        // a capacity-bounded table holds, so entries are evicted and asked for again)
        for _ in 0..pool {
            let d = 1 + rng.below(4);
            let (_, s) = gen_expr(&cfg, rng, d);
            exprs.push((ev, s.clone()));
            if rng.chance(1, 3) {
                exprs.push((ev, mutate(&s, rng, ev)));
            }
        }
        for s in ["@", "@+1", "@*@", "1/0", "(", "2+", "w(-5)", "min(@,1)", "99!", "1.2.3", "@!", "abs(@)-@", "med(3,@,1)", "2^@"] {
            exprs.push((ev, s.to_string()));
        }
        // long literals of different values - the printed forms of very large and very small results, as a
        // caller that reads results back would send them - so that different threads convert different long
        // texts at the same moment (seeded change C19-r10: a process-wide one-entry memo for literals of 32
        // characters and more whose key and value are not published together)
        if matches!(ev, Ev::F64 | Ev::Cpx | Ev::Num | Ev::Dec) {
            let xs: [f64; 12] = [1e300, 1.2345678901234567e250, 5e-324, 2.2250738585072014e-308, f64::MAX, 1e100, 1.5e200, 7e-310, 3.3e-200, 9.87654321e180, 1e-100, 4.4e44];
            for (k, x) in xs.iter().enumerate() {
                let t = format!("{}", x);
                if ev == Ev::Dec && (t.len() > 28 || t.contains("0000000000000000000000000000")) {
                    continue;
                }
                let e = match (ev, k % 3) {
                    (Ev::Cpx, 0) => format!("{}-{}i", t, format!("{}", xs[(k + 5) % xs.len()])),
                    (_, 1) => format!("{}+@*0", t),
                    _ => t,
                };
                exprs.push((ev, e));
            }
        }
        // aggregates whose outcome depends on the order in which the arguments are folded (an overflow
        // competing with a zero, a NaN among numbers, a failing argument among good ones): an evaluation
        // that visits its arguments in an order of its own (a hash set, a parallel fold) answers the same
        // call differently from time to time (seeded change C16-r8)
        if ev != Ev::Cpx {
            let vals: Vec<&str> = match ev {
                Ev::I64 => vec!["0", "3", "6", "(0-1)", "4611686018427387904", "9223372036854775807", "(0-9223372036854775807-1)", "(1/0)", "@", "4294967296", "2", "18"],
                Ev::Dec => vec!["0", "3", "0.5", "(0-1)", "79228162514264337593543950335", "0.0000000000000000000000000001", "(1/0)", "@", "(0-79228162514264337593543950335)", "2.50"],
                _ => vec!["0", "3", "0.5", "(0-1)", "(0/0)", "(1/0)", "(0-1/0)", "(0*(0-1))", "@", "179769313486231570000000000000000000000", "9007199254740993", "w(0-5)"],
            };
            let names: Vec<&str> = if ev == Ev::I64 { vec!["min", "max", "avg", "med", "gcd", "lcm", "gcd", "lcm"] } else { vec!["min", "max", "avg", "med", "median"] };
            for _ in 0..10 {
                let k = 3 + rng.below(4);
                let args: Vec<&str> = (0..k).map(|_| *rng.pick(&vals)).collect();
                exprs.push((ev, format!("{}({})", *rng.pick(&names), args.join(","))));
            }
        }
    }
    let mut h: Vec<Call> = vec![];
    while h.len() < n {
        let (ev, s) = exprs[rng.below(exprs.len())].clone();
        let pool = ph_pool(ev);
        match rng.below(8) {
            7 => long_then_short(rng, ev, &exprs, &mut h),
            6 => part_way_failure(rng, ev, &mut h),
            5 => {
                // iterative functions on neighbouring arguments back to back: a warm start or memo
                // carried from one call to the next shows in the last digits
                let templates = ["w(@)", "lambert_w(@)", "@!", "ilog(@,2)", "sqrt(@)", "exp(@/100)", "ln(@)", "@^0.5", "root(3,@)", "w(@)+w(@*1.5)", "gcd(@,12)", "lcm(@,18)", "avg(@,@+1)", "med(@,1,@)"];
                let t = *rng.pick(&templates[..]);
                let base = *rng.pick(&[0.2f64, 0.11, 7.0, 10.0, 25.0, 40.0, 1000.0, 1500.0, 3.0, 12.0][..]);
                for f in [1.0, 1.4, 0.7, 1.9, 1.0] {
                    let x = base * f;
                    let ph = match ev {
                        Ev::F64 => Val::F(x),
                        Ev::I64 => Val::I(x as i64 + 1),
                        Ev::Dec => Val::D(crate::val::DecV { neg: false, mant: (x * 1000.0).round() as u128, scale: 3 }),
                        Ev::Cpx => Val::C(x, 0.0),
                        Ev::Num => {
                            if f == 1.0 {
                                Val::NI(x as i64 + 1)
                            } else {
                                Val::NF(x)
                            }
                        }
                    };
                    h.push(Call { ev, expr: t.to_string(), ph });
                }
            }
            4 => {
                // placeholders that compare equal (or hash alike) but are different values: a cache keyed
                // on == or on the numeric value would confuse them
                let groups: Vec<Vec<Val>> = confusable(ev);
                let g = &groups[rng.below(groups.len())];
                let s2 = if s.contains('@') || rng.chance(1, 2) { s.clone() } else { (*rng.pick(&["@", "1/@", "@*1", "abs(@)-@", "@+@", "sqrt(@)", "@/3"][..])).to_string() };
                let mut order: Vec<usize> = (0..g.len()).collect();
                rng.shuffle(&mut order);
                for k in order {
                    h.push(Call { ev, expr: s2.clone(), ph: g[k] });
                }
            }
            0 => {
                // same expression, changing placeholders, back to back
                for _ in 0..2 + rng.below(3) {
                    h.push(Call { ev, expr: s.clone(), ph: *rng.pick(&pool) });
                }
            }
            1 => {
                // same text to every evaluator
                for e2 in ALL_EV {
                    h.push(Call { ev: e2, expr: s.clone(), ph: *rng.pick(&ph_pool(e2)) });
                }
            }
            2 => {
                // good call, failing call, the good call again
                let ph = *rng.pick(&pool);
                h.push(Call { ev, expr: s.clone(), ph });
                h.push(Call { ev, expr: format!("{})", s), ph });
                h.push(Call { ev, expr: s.clone(), ph });
            }
            _ => h.push(Call { ev, expr: s, ph: *rng.pick(&pool) }),
        }
    }
    h.truncate(n);
    h
}

/// An input far longer than the usual ones (hundreds to thousands of bytes, but a shallow tree), then
/// short ones: whatever is kept from one call to the next and sized by the input (a reused buffer
/// with a retained tail or capacity, a table that has grown) shows in the calls that follow.
fn long_then_short(rng: &mut Rng, ev: Ev, exprs: &[(Ev, String)], h: &mut Vec<Call>) {
    let n = *rng.pick(&[40usize, 100, 300, 1000][..]);
    let long = match rng.below(5) {
        0 => format!("{}({})", *rng.pick(&["max", "min", "avg", "med", "gcd"][..]), (0..n).map(|k| format!("{}", 1 + (k * 7) % 23)).collect::<Vec<_>>().join(",")),
        1 => format!("0.{}", "3".repeat(n * 3)),
        2 => format!("1{}", "0".repeat(n * 2)),
        3 => (0..n.min(100)).map(|k| format!("1.00000000{:02}", k)).collect::<Vec<_>>().join("+"),
        _ => format!("max({})+@", (0..n).map(|k| format!("{}.5", k % 9)).collect::<Vec<_>>().join(" ,\t")),
    };
    let pool = ph_pool(ev);
    h.push(Call { ev, expr: long.clone(), ph: *rng.pick(&pool) });
    for _ in 0..2 {
        let (e2, s2) = exprs[rng.below(exprs.len())].clone();
        h.push(Call { ev: e2, expr: s2, ph: *rng.pick(&ph_pool(e2)) });
    }
    if rng.chance(1, 2) {
        h.push(Call { ev, expr: long, ph: *rng.pick(&pool) });
    }
}

/// An evaluation that fails part-way through (a later argument of a many-argument function, the right
/// operand of an operator, an inner call) between successful evaluations of the same and of unrelated
/// expressions: whatever the abandoned evaluation had collected must not reach the next one.
fn part_way_failure(rng: &mut Rng, ev: Ev, h: &mut Vec<Call>) {
    // sub-expressions whose evaluation fails for some placeholders only
    let fragile = ["w(@)", "lambert_w(@-1)", "ilog(@,1)", "ilog(2,@)", "1/@", "(@)!", "@*9223372036854775807", "@^99", "3%@", "79228162514264337593543950335+@", "sqrt(@)!"];
    let outer = ["min", "max", "avg", "med", "median", "gcd", "lcm", "atan2", "pow", "log", "root"];
    let g = *rng.pick(&fragile[..]);
    let f = *rng.pick(&outer[..]);
    let t = match rng.below(6) {
        0 => format!("{}(@,{},10)", f, g),
        1 => format!("{}(3,@,{})", f, g),
        2 => format!("{}(7,{}(@,{}),5)", f, f, g),
        3 => format!("{}(1,2,3,4,@,{})", f, g),
        4 => format!("@+{}(2,{})*3", f, g),
        _ => format!("{}({},@,2)", f, g),
    };
    let x = |v: i64| -> Val {
        match ev {
            Ev::F64 => Val::F(v as f64),
            Ev::I64 => Val::I(v),
            Ev::Dec => Val::D(crate::val::DecV { neg: v < 0, mant: v.unsigned_abs() as u128, scale: 0 }),
            Ev::Cpx => Val::C(v as f64, 0.0),
            Ev::Num => {
                if v % 2 == 0 {
                    Val::NI(v)
                } else {
                    Val::NF(v as f64)
                }
            }
        }
    };
    let follow = [format!("{}(9,1,5)", f), format!("{}(@,2)", f), format!("{}(4,@,6,8)", f), t.clone()];
    let mut vals = [5i64, -1, 7, 0, 12, -5, 1, 3, 100];
    rng.shuffle(&mut vals);
    for v in &vals[..5] {
        h.push(Call { ev, expr: t.clone(), ph: x(*v) });
        h.push(Call { ev, expr: rng.pick(&follow[..]).clone(), ph: x(vals[rng.below(vals.len())]) });
    }
}

/// groups of placeholder values that are equal under ==, or numerically equal, yet distinct
fn confusable(ev: Ev) -> Vec<Vec<Val>> {
    use crate::val::DecV;
    let d = |neg, mant, scale| Val::D(DecV { neg, mant, scale });
    match ev {
        Ev::F64 => vec![
            vec![Val::F(0.0), Val::F(-0.0)],
            vec![Val::F(f64::NAN), Val::F(f64::from_bits(0x7ff8_0000_0000_0001)), Val::F(f64::from_bits(0xfff8_0000_0000_0000))],
            vec![Val::F(1.0), Val::F(1.0000000000000002), Val::F(0.9999999999999999)],
        ],
        Ev::I64 => vec![vec![Val::I(0), Val::I(1), Val::I(-1)], vec![Val::I(i64::MAX), Val::I(i64::MIN), Val::I(i64::MAX - 1)], vec![Val::I(4294967296), Val::I(0), Val::I(8589934592)]],
        Ev::Dec => vec![vec![d(false, 1, 0), d(false, 10, 1), d(false, 100, 2), d(false, 1000000, 6)], vec![d(false, 0, 0), d(true, 0, 0), d(false, 0, 28), d(true, 0, 5)], vec![d(false, 25, 1), d(false, 250, 2)]],
        Ev::Cpx => vec![vec![Val::C(1.0, 2.0), Val::C(2.0, 1.0), Val::C(-1.0, -2.0)], vec![Val::C(3.0, 3.0), Val::C(5.0, 5.0), Val::C(0.0, 0.0), Val::C(2.5, 2.5)], vec![Val::C(0.0, 0.0), Val::C(-0.0, 0.0), Val::C(0.0, -0.0), Val::C(-0.0, -0.0)], vec![Val::C(1.0, 0.0), Val::C(1.0, -0.0)], vec![Val::C(f64::NAN, 1.0), Val::C(f64::from_bits(0x7ff8_0000_0000_0001), 1.0)]],
        Ev::Num => vec![
            vec![Val::NI(5), Val::NF(5.0)],
            vec![Val::NI(0), Val::NF(0.0), Val::NF(-0.0)],
            vec![Val::NI(i64::MAX), Val::NF(9223372036854775807.0)],
            vec![Val::NF(f64::NAN), Val::NF(f64::from_bits(0x7ff8_0000_0000_0001))],
        ],
    }
}

fn run_call(c: &Call, yield_every: u64) -> Outcome {
    crate::driver::progress();
    let len = c.expr.chars().count();
    sut::call_with(c.ev, &c.expr, &c.ph, sut::c02_budget(len), yield_every).outcome
}

static TICKET: AtomicU64 = AtomicU64::new(0);

/// Fresh processes differ in what surrounds them too: locale, time zone, working directory, home - a
/// result must depend on none of it.
fn vary_surroundings(cmd: &mut std::process::Command, k: usize) {
    match k % 3 {
        1 => {
            cmd.env("LANG", "de_DE.UTF-8").env("LC_ALL", "de_DE.UTF-8").env("LC_NUMERIC", "de_DE.UTF-8").env("LANGUAGE", "de").env("TZ", "Asia/Kolkata");
        }
        2 => {
            cmd.env("LANG", "C").env("LC_ALL", "C").env("TZ", "UTC").env("RUST_BACKTRACE", "1").env_remove("HOME").env_remove("USER").current_dir("/");
        }
        _ => {}
    }
}

/// number of pairs of calls whose [begin, end] ticket intervals overlap
fn overlapping_pairs(mut iv: Vec<(u64, u64)>) -> u64 {
    iv.sort();
    let mut heap: BinaryHeap<std::cmp::Reverse<u64>> = BinaryHeap::new();
    let mut pairs = 0u64;
    for (b, e) in iv {
        while let Some(std::cmp::Reverse(top)) = heap.peek() {
            if *top < b {
                heap.pop();
            } else {
                break;
            }
        }
        pairs += heap.len() as u64;
        heap.push(std::cmp::Reverse(e));
    }
    pairs
}

impl Monitor for C16 {
    fn id(&self) -> &'static str {
        "C16"
    }
    fn run(&self, ctx: &mut Ctx) {
        // every shard runs its own history (different seed stream); cases are reported per observed call
        let n = ctx.tier.pick(3_000usize, 40_000);
        let mut rng = ctx.rng("history", ctx.shard);
        let pool = ctx.tier.pick([12usize, 40, 120, 300], [40, 300, 1000, 3000])[ctx.shard as usize % 4];
        ctx.stats.max("expressions_per_evaluator_in_one_history", pool as f64);
        let hist = build_history(&mut rng, n, pool);
        let threads = 16usize;
        // phase A: sequential, order pi1
        let mut base: HashMap<String, Outcome> = HashMap::new();
        let mut prev = String::from("(start)");
        for c in &hist {
            let o = run_call(c, 0);
            let k = c.key();
            match base.get(&k) {
                Some(b) if !b.identical(&o) => self.report(ctx, c, b, &o, &format!("sequential history, previous call: {}", prev)),
                Some(_) => self.ok(ctx, c, "sequential-repeat"),
                None => {
                    base.insert(k, o);
                    self.ok(ctx, c, "sequential-first");
                }
            }
            prev = format!("{}:{}", c.ev.name(), c.expr);
        }
        // expressions observed both succeeding and failing, depending on the placeholder only
        let mut seen: HashMap<String, (bool, bool)> = HashMap::new();
        for (k, o) in &base {
            let mut it = k.split('\u{1f}');
            let ek = format!("{}\u{1f}{}", it.next().unwrap_or(""), it.next().unwrap_or(""));
            let e = seen.entry(ek).or_insert((false, false));
            match o {
                Outcome::Ok(_) => e.0 = true,
                Outcome::Err(_) => e.1 = true,
                _ => {}
            }
        }
        ctx.stats.add("expressions_both_succeeding_and_failing", seen.values().filter(|e| e.0 && e.1).count() as u64);
        // phase B: permuted order pi2
        let mut order: Vec<usize> = (0..hist.len()).collect();
        rng.shuffle(&mut order);
        let mut prev = String::from("(start)");
        for i in &order {
            let c = &hist[*i];
            let o = run_call(c, 0);
            let b = &base[&c.key()];
            if !b.identical(&o) {
                self.report(ctx, c, b, &o, &format!("permuted history, previous call: {}", prev));
            } else {
                self.ok(ctx, c, "permuted");
            }
            prev = format!("{}:{}", c.ev.name(), c.expr);
        }
        // phase C: 16 threads replay the history concurrently (each from a different rotation), with
        // the scheduler shaken by yield_now() at every k-th tick
        let hist = Arc::new(hist);
        let base = Arc::new(base);
        let found: Arc<Mutex<Vec<(usize, Outcome)>>> = Arc::new(Mutex::new(vec![]));
        let intervals: Arc<Mutex<Vec<(u64, u64)>>> = Arc::new(Mutex::new(vec![]));
        let per_thread = ctx.tier.pick(hist.len() / 2, hist.len());
        let mut hs = vec![];
        for t in 0..threads {
            let (hist, base, found, intervals) = (hist.clone(), base.clone(), found.clone(), intervals.clone());
            hs.push(
                std::thread::Builder::new()
                    .stack_size(8 * 1024 * 1024 + 256 * 1024)
                    .spawn(move || {
                        crate::sut::install_hook();
                        let mut iv = Vec::with_capacity(per_thread);
                        let start = t * hist.len() / threads;
                        for j in 0..per_thread {
                            let i = (start + j) % hist.len();
                            let c = &hist[i];
                            let b0 = TICKET.fetch_add(1, Ordering::SeqCst);
                            let o = run_call(c, 1 + (t as u64 % 7));
                            let e0 = TICKET.fetch_add(1, Ordering::SeqCst);
                            iv.push((b0, e0));
                            if !base[&c.key()].identical(&o) {
                                found.lock().unwrap().push((i, o));
                            }
                        }
                        intervals.lock().unwrap().extend(iv);
                    })
                    .expect("spawn"),
            );
        }
        for h in hs {
            let _ = h.join();
        }
        let conc_calls = intervals.lock().unwrap().len() as u64;
        ctx.stats.add("concurrent_calls", conc_calls);
        ctx.stats.add("evaluations", conc_calls);
        ctx.stats.add("passed", conc_calls);
        let pairs = overlapping_pairs(intervals.lock().unwrap().clone());
        ctx.stats.add("overlapping_call_pairs", pairs);
        for (i, o) in found.lock().unwrap().iter() {
            let c = &hist[*i];
            self.report(ctx, c, &base[&c.key()], o, "16 concurrent threads");
        }
        // phase D: first call of a fresh process
        let samples = ctx.tier.pick(13usize, 125);
        let exe = std::env::current_exe().ok();
        for s in 0..samples {
            let c = &hist[(s * 7919) % hist.len()];
            if let Some(exe) = &exe {
                let mut cmd = std::process::Command::new(exe);
                cmd.arg("fresh").arg(c.ev.name()).arg(&c.expr).arg(c.ph.enc());
                vary_surroundings(&mut cmd, s);
                let out = cmd.output();
                match out {
                    Ok(o) if o.status.success() => {
                        let text = String::from_utf8_lossy(&o.stdout).trim_end_matches('\n').to_string();
                        let b = &base[&c.key()];
                        if text != b.enc() {
                            let fake = Outcome::Err(format!("(fresh process printed) {}", text));
                            self.report(ctx, c, b, &fake, "first call of a fresh process");
                        } else {
                            ctx.stats.inc("fresh_process_baselines_agreeing");
                            self.ok(ctx, c, "fresh-process");
                        }
                    }
                    _ => ctx.stats.inc("fresh_process_spawn_failed"),
                }
            }
        }
        // phase E: short sequences in fresh processes - whatever the first calls of a process (or its
        // first use of an evaluator) fix for the rest of its life shows in the calls that follow
        let seqs = ctx.tier.pick(40usize, 300);
        if let Some(exe) = &exe {
            let dir = format!("{}/.build/tmp", crate::driver::root());
            let _ = std::fs::create_dir_all(&dir);
            for s in 0..seqs {
                let len = 3 + rng.below(6);
                // random picks, or a run of neighbours of the history (related calls: the same expression with
                // changing placeholders, neighbouring arguments of one function), forwards or backwards
                let idx: Vec<usize> = match s % 3 {
                    0 => (0..len).map(|_| rng.below(hist.len())).collect(),
                    k => {
                        let start = rng.below(hist.len());
                        let mut v: Vec<usize> = (0..len).map(|j| (start + j) % hist.len()).collect();
                        if k == 2 {
                            v.reverse();
                        }
                        v
                    }
                };
                let path = format!("{}/c16-seq-{}-{}-{}.jsonl", dir, std::process::id(), ctx.shard, s);
                let text: String = idx.iter().map(|i| Case::new(hist[*i].ev, "history", &hist[*i].expr, hist[*i].ph).to_json().to_string() + "\n").collect();
                if std::fs::write(&path, text).is_err() {
                    ctx.stats.inc("fresh_process_spawn_failed");
                    continue;
                }
                let mut cmd = std::process::Command::new(exe);
                cmd.arg("fresh-seq").arg(&path);
                vary_surroundings(&mut cmd, s / 3);
                let out = cmd.output();
                let _ = std::fs::remove_file(&path);
                let outs: Vec<String> = match out {
                    Ok(o) if o.status.success() => match crate::json::J::parse(String::from_utf8_lossy(&o.stdout).trim()) {
                        Ok(crate::json::J::Arr(a)) => a.iter().filter_map(|x| x.as_str().map(|t| t.to_string())).collect(),
                        _ => vec![],
                    },
                    _ => vec![],
                };
                if outs.len() != idx.len() {
                    ctx.stats.inc("fresh_process_spawn_failed");
                    continue;
                }
                ctx.stats.inc("fresh_process_sequences");
                for (k, i) in idx.iter().enumerate() {
                    let c = &hist[*i];
                    let b = &base[&c.key()];
                    if outs[k] != b.enc() {
                        let fake = Outcome::Err(format!("(call {} of a fresh process printed) {}", k + 1, outs[k]));
                        let first = &hist[idx[0]];
                        self.report(ctx, c, b, &fake, &format!("fresh process whose first call was {}:{}", first.ev.name(), first.expr));
                    } else {
                        self.ok(ctx, c, "fresh-process-sequence");
                    }
                }
            }
        }
        // phase F: fresh processes in which nothing is evaluated before 8 threads start together on the
        // same run of calls: tables built lazily are built under contention (in phase C they already exist)
        let concs = ctx.tier.pick(9usize, 90);
        if let Some(exe) = &exe {
            let dir = format!("{}/.build/tmp", crate::driver::root());
            let mut extra_base: HashMap<String, Outcome> = HashMap::new();
            for s in 0..concs {
                let len = 10 + rng.below(30);
                let hammer = s % 3 == 2;
                let calls: Vec<Call> = if hammer {
                    // a handful of distinct calls repeated a few hundred times, every thread starting at another
                    // place of the list: the threads keep asking for *different* members of the same small family
                    // at the same moment - long literals of different values, one function on neighbouring
                    // arguments, a few calls of the history - which is what a process-wide memo with one or a few
                    // entries needs to mix two callers up
                    let ev = *rng.pick(&[Ev::F64, Ev::Cpx, Ev::Num, Ev::Dec, Ev::I64][..]);
                    let group: Vec<Call> = match rng.below(3) {
                        0 => {
                            let xs: [f64; 8] = [1e300, 1.2345678901234567e250, 5e-324, 2.2250738585072014e-308, 1e100, 1.5e200, 7e-310, 9.87654321e180];
                            let ev = if matches!(ev, Ev::Dec | Ev::I64) { Ev::F64 } else { ev };
                            xs.iter().enumerate().map(|(k, x)| Call { ev, expr: if ev == Ev::Cpx { format!("{}-{}i", x, xs[(k + 3) % 8]) } else { format!("{}", x) }, ph: Val::zero(ev) }).collect()
                        }
                        1 => {
                            let t = *rng.pick(&["@!", "w(@)", "2^@", "sqrt(@)", "exp(@/10)", "ln(@+1)", "@*@", "1/@", "abs(@)-@"][..]);
                            (20..26i64)
                                .map(|k| Call {
                                    ev,
                                    expr: t.to_string(),
                                    ph: match ev {
                                        Ev::F64 => Val::F(k as f64),
                                        Ev::I64 => Val::I(k),
                                        Ev::Dec => Val::D(crate::val::DecV { neg: false, mant: k as u128, scale: 0 }),
                                        Ev::Cpx => Val::C(k as f64, 0.0),
                                        Ev::Num => Val::NI(k),
                                    },
                                })
                                .collect()
                        }
                        _ => {
                            let start = rng.below(hist.len());
                            (0..6).map(|j| hist[(start + j * 7) % hist.len()].clone()).collect()
                        }
                    };
                    (0..1200).map(|j| group[j % group.len()].clone()).collect()
                } else if s % 2 == 0 {
                    let start = rng.below(hist.len());
                    (0..len).map(|j| hist[(start + j) % hist.len()].clone()).collect()
                } else {
                    // one function swept over ascending arguments: every thread meets each not-yet-seen
                    // argument at the same moment
                    let ev = ALL_EV[rng.below(ALL_EV.len())];
                    let t = *rng.pick(&["@!", "(@)!+1", "w(@)", "ilog(@,2)", "2^@", "sqrt(@)", "exp(@/10)", "ln(@+1)", "gcd(@,360)", "lcm(@,12)", "@!/(@-1)!", "med(@,3,@+1)"][..]);
                    (0..len + 20)
                        .map(|k| {
                            let k = k as i64;
                            let ph = match ev {
                                Ev::F64 => Val::F(k as f64),
                                Ev::I64 => Val::I(k),
                                Ev::Dec => Val::D(crate::val::DecV { neg: false, mant: k as u128, scale: 0 }),
                                Ev::Cpx => Val::C(k as f64, 0.0),
                                Ev::Num => {
                                    if k % 3 == 0 {
                                        Val::NF(k as f64)
                                    } else {
                                        Val::NI(k)
                                    }
                                }
                            };
                            Call { ev, expr: t.to_string(), ph }
                        })
                        .collect()
                };
                let path = format!("{}/c16-conc-{}-{}-{}.jsonl", dir, std::process::id(), ctx.shard, s);
                let text: String = calls.iter().map(|c| Case::new(c.ev, "history", &c.expr, c.ph).to_json().to_string() + "\n").collect();
                if std::fs::write(&path, text).is_err() {
                    ctx.stats.inc("fresh_process_spawn_failed");
                    continue;
                }
                let n_threads = "8";
                let out = std::process::Command::new(exe).arg("fresh-conc").arg(&path).arg(n_threads).arg(if hammer { "rotate" } else { "together" }).output();
                let _ = std::fs::remove_file(&path);
                let parsed = match out {
                    Ok(o) if o.status.success() => crate::json::J::parse(String::from_utf8_lossy(&o.stdout).trim()).ok(),
                    _ => None,
                };
                let j = match parsed {
                    Some(j) => j,
                    None => {
                        ctx.stats.inc("fresh_process_spawn_failed");
                        continue;
                    }
                };
                ctx.stats.inc("fresh_concurrent_processes");
                let strs = |a: &crate::json::J| -> Vec<String> {
                    match a {
                        crate::json::J::Arr(v) => v.iter().filter_map(|x| x.as_str().map(|t| t.to_string())).collect(),
                        _ => vec![],
                    }
                };
                let mut lists: Vec<(String, Vec<String>)> = j.arr("threads").iter().enumerate().map(|(t, a)| (format!("thread {} of 8 started together in a fresh process", t), strs(a))).collect();
                lists.push(("one thread of a fresh process after 8 concurrent ones".to_string(), j.get("after").map(strs).unwrap_or_default()));
                for (what, outs) in lists {
                    if outs.len() != calls.len() {
                        ctx.stats.inc("fresh_process_spawn_failed");
                        continue;
                    }
                    for (k, c) in calls.iter().enumerate() {
                        let key = c.key();
                        let b: Outcome = match base.get(&key) {
                            Some(b) => b.clone(),
                            None => extra_base.entry(key).or_insert_with(|| run_call(c, 0)).clone(),
                        };
                        let b = &b;
                        if outs[k] != b.enc() {
                            let fake = Outcome::Err(format!("({}) {}", what, outs[k]));
                            self.report(ctx, c, b, &fake, "fresh process with 8 threads started together");
                        } else {
                            self.ok(ctx, c, "fresh-concurrent");
                        }
                    }
                }
            }
        }
    }
    fn judge(&self, case: &Case, _st: &mut Stats) -> Verdict {
        // replay: the recorded outcome must be what a plain call returns, every time
        let c = Call { ev: case.ev, expr: case.exprs[0].clone(), ph: case.phs[0] };
        let a = run_call(&c, 0);
        let b = run_call(&c, 0);
        let expected = case.extra.split(" ||| ").next().unwrap_or("");
        if !a.identical(&b) {
            return viol("history-dependence", format!("C16|{}|history-dependence|replay", case.ev.name()), format!("two consecutive identical calls differ: {} then {}", a.show(), b.show()));
        }
        if !expected.is_empty() && a.enc() != expected {
            return viol("history-dependence", format!("C16|{}|history-dependence|replay", case.ev.name()), format!("recorded first-time outcome {:?} but a fresh call returns {:?}", expected, a.enc()));
        }
        pass(true)
    }
    fn rule(&self) -> &'static str {
        "each of the 16 workers builds its own random history (12 to 300 distinct expressions per evaluator in the quick tier, 40 to 3000 in the thorough tier, depending on the worker - few, so that each is repeated often, or more than a capacity-bounded table would hold; incl. malformed ones, the same expression with changing placeholders back to back, failing calls between good ones, evaluations that fail part-way through (in a later argument, a right operand, an inner call) followed by successful ones of the same and of unrelated expressions, the same text sent to every evaluator) and runs it (A) sequentially, recording the outcome of every distinct (evaluator, expression, placeholder) and comparing repeats, (B) in a shuffled order, (C) on 16 threads concurrently, each thread replaying the history from a different rotation with thread::yield_now() injected at every k-th counted step, (D) as the first call of a fresh process for a sample (fresh processes also vary locale, time zone, working directory and home), (E) as short sequences (3-8 calls: random picks, or runs of neighbouring calls of the history forwards and backwards) each in a fresh process of its own, (F) in fresh processes where 8 threads leave a barrier together and run the same calls (10-40 neighbouring calls of the history, or one function swept over ascending arguments) before anything else has been evaluated, followed by one more sequential pass; histories include inputs of hundreds to thousands of bytes followed by short ones; any call observed with two different outcomes (full comparison including error messages) is a violation; begin/end tickets from one atomic counter show which calls overlapped in time; plus Miri (many seeds) and, in the thorough tier, ThreadSanitizer over a multi-threaded replay; non-trivial = every compared observation; distinct = distinct (evaluator, expression, placeholder, phase)"
    }
    fn assumptions(&self) -> Vec<&'static str> {
        vec![
            "state keyed on something the histories never vary, or needing more calls than a history holds, is out of reach",
            "the crate has no unsafe code, statics or interior mutability at the pinned commit, so TSan/Miri act as tripwires for changes that add them",
        ]
    }
    fn floors(&self, t: Tier) -> Vec<(String, u64)> {
        vec![("overlapping_call_pairs".into(), 10_000), ("concurrent_calls".into(), t.pick(100_000, 1_000_000)), ("fresh_process_baselines_agreeing".into(), t.pick(100, 1000)), ("distinct_calls".into(), 5_000), ("fresh_process_sequences".into(), t.pick(300, 3000)), ("fresh_concurrent_processes".into(), t.pick(50, 500)), ("expressions_both_succeeding_and_failing".into(), 200)]
    }
}

impl C16 {
    fn ok(&self, ctx: &mut Ctx, c: &Call, phase: &str) {
        ctx.stats.inc("evaluations");
        ctx.stats.inc("passed");
        ctx.stats.inc(&format!("observations.{}", phase));
        ctx.stats.inc(&format!("by_evaluator.{}", c.ev.name()));
        let case = Case::new(c.ev, phase, &c.expr, c.ph);
        if ctx.stats.distinct.insert(case.hash()) && phase == "sequential-first" {
            ctx.stats.inc("distinct_calls");
        }
        if ctx.stats.samples.len() < 6 {
            ctx.stats.samples.push(case.to_json());
        }
    }
    fn report(&self, ctx: &mut Ctx, c: &Call, first: &Outcome, now: &Outcome, phase: &str) {
        let case = Case::new(c.ev, "history", &c.expr, c.ph).with_extra(&format!("{} ||| {}", first.enc(), now.enc()));
        let phase_tag = phase.split(',').next().unwrap_or(phase).to_string();
        ctx.check(&case, &|_, _| viol("history-dependence", format!("C16|{}|history-dependence|{}", c.ev.name(), phase_tag), format!("first observed {} ; later ({}) {}", first.show(), phase, now.show())));
    }
}
