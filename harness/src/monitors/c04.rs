//! C04 — operator precedence, associativity and bracket overriding.

use super::refjudge::*;
use super::Monitor;
use crate::core::*;
use crate::gen::for_each_seq;
use crate::sut;
use crate::syntax::*;
use crate::val::{Ev, Val, ALL_EV};

pub struct C04;

/// skeleton vocabulary: `None` is the operand slot
fn vocab(ev: Ev, thorough: bool) -> Vec<Option<Tok>> {
    let mut v: Vec<Option<Tok>> = vec![None, Some(Tok::Plus), Some(Tok::Minus), Some(Tok::Star), Some(Tok::Slash), Some(Tok::Caret), Some(Tok::LPar), Some(Tok::RPar), Some(Tok::Sup("2".into()))];
    if has_fact_mod(ev) {
        v.push(Some(Tok::Percent));
        v.push(Some(Tok::Bang));
    }
    if has_degrad(ev) {
        v.push(Some(Tok::Deg));
        if thorough {
            v.push(Some(Tok::Rad));
        }
    }
    if has_floorceil_brackets(ev) {
        v.push(Some(Tok::LFloor));
        v.push(Some(Tok::RFloor));
        if thorough {
            v.push(Some(Tok::LCeil));
            v.push(Some(Tok::RCeil));
        }
    }
    if has_bitops(ev) {
        v.extend([Some(Tok::Bar), Some(Tok::Amp), Some(Tok::Shl), Some(Tok::Shr)]);
    }
    v
}

fn operand_tokens(ev: Ev, k: usize) -> Vec<Tok> {
    let n = |s: &str| Tok::Num(s.to_string());
    match ev {
        Ev::I64 => {
            let p = ["2", "3", "5", "7", "4", "6", "1", "9", "11", "13"];
            vec![n(p[k % p.len()])]
        }
        Ev::Cpx => {
            let p = [("2", "3"), ("1", "2"), ("0.5", "1.5"), ("3", "1"), ("1.5", "0.5"), ("2", "1"), ("1.25", "2"), ("3", "2")];
            let (a, b) = p[k % p.len()];
            let sign = if k % 3 == 1 { Tok::Minus } else { Tok::Plus };
            vec![Tok::LPar, n(a), sign, Tok::ImNum(b.to_string()), Tok::RPar]
        }
        Ev::Num => {
            let p = ["2", "3", "5", "0.5", "7", "1.25", "4", "2.5", "6", "1.5"];
            vec![n(p[k % p.len()])]
        }
        _ => {
            let p = ["2", "3", "5", "7", "0.5", "1.25", "4", "1.5", "6", "0.25"];
            vec![n(p[k % p.len()])]
        }
    }
}

fn tok_name(t: &Option<Tok>) -> String {
    match t {
        None => "N".into(),
        Some(t) => render_tokens(std::slice::from_ref(t)),
    }
}

impl Monitor for C04 {
    fn id(&self) -> &'static str {
        "C04"
    }
    fn run(&self, ctx: &mut Ctx) {
        let thorough = ctx.tier == Tier::Thorough;
        let maxlen = if thorough { 7 } else { 6 };
        for ev in ALL_EV {
            let voc = vocab(ev, thorough);
            let maxlen = if ev == Ev::I64 && !thorough { 5 } else { maxlen };
            let ctx_maxlen = if thorough { 5 } else { 4 };
            let mut contexts: Vec<&str> = vec!["abs({s})", "({s})", "2*({s})", "pow({s},1)", "pow(1,{s})"];
            if crate::syntax::Func::Max.available(ev) {
                contexts.extend(["max({s},0-999)", "min(999,{s})", "avg({s})", "med({s})", "median(0-999,{s},999)", "max({s})"]);
            }
            if has_floorceil_brackets(ev) {
                contexts.extend(["⌊{s}⌋", "⌈{s}⌉"]);
            }
            if has_fact_mod(ev) {
                contexts.push("mod({s},1000)");
            }
            for len in 1..=maxlen {
                let mut owned: Vec<Vec<usize>> = vec![];
                let flush = |ctx: &mut Ctx, owned: &mut Vec<Vec<usize>>| {
                    for idx in owned.drain(..) {
                        // cheap structural parse with single-token operands
                        let toks: Vec<Tok> = idx.iter().flat_map(|i| voc[*i].clone().map(|t| vec![t]).unwrap_or_else(|| vec![Tok::Num("2".into())])).collect();
                        let p = match parse_tokens(if ev == Ev::Cpx { Ev::Cpx } else { ev }, &toks) {
                            Ok(p) if !p.unspec => p,
                            _ => continue,
                        };
                        // implicit products of adjacent operands belong to C12; keep skeletons free of them
                        if p.ast.has_imul() && ev != Ev::Cpx {
                            // (N)(N) style products are kept: they exercise brackets against operators
                        }
                        let skeleton: String = idx.iter().map(|i| tok_name(&voc[*i])).collect::<Vec<_>>().join(" ");
                        for asg in 0..3usize {
                            let mut k = asg * 5 + idx.len();
                            let mut full: Vec<Tok> = vec![];
                            for i in idx.iter() {
                                match &voc[*i] {
                                    Some(t) => full.push(t.clone()),
                                    None => {
                                        full.extend(operand_tokens(ev, k));
                                        k += 1 + asg;
                                    }
                                }
                            }
                            let s = render_tokens(&full);
                            let case = Case::new(ev, "skeleton", &s, Val::zero(ev)).with_extra(&skeleton);
                            ctx.check(&case, &|c, st| self.judge(c, st));
                            // the same skeleton as an item of every kind of list and inside every kind of
                            // bracket: argument lists and brackets are parsed by code of their own (seeded
                            // change C04-r9: `-3!` as the first thing in an aggregate's argument grouped as (-3)!)
                            if asg == 0 && idx.len() <= ctx_maxlen {
                                for c in &contexts {
                                    let t = c.replace("{s}", &s);
                                    let case = Case::new(ev, "skeleton-in-context", &t, Val::zero(ev)).with_extra(&format!("{} in {}", skeleton, c));
                                    ctx.check(&case, &|c, st| self.judge(c, st));
                                }
                            }
                        }
                    }
                };
                for_each_seq(voc.len(), len, &mut |idx| {
                    if ctx.mine() {
                        owned.push(idx.to_vec());
                    }
                    if owned.len() >= 8192 {
                        flush(ctx, &mut owned);
                    }
                });
                flush(ctx, &mut owned);
            }
            // random deeper trees over exact operations
            let leaf = crate::gen::small_leaf(ev);
            let mut cfg = crate::gen::GenCfg::full(ev, &leaf);
            cfg.funcs = vec![];
            cfg.sup_digits = vec!["2", "3"];
            let n = ctx.tier.pick(20_000u64, 300_000);
            for i in 0..n {
                if ctx.mine() {
                    let mut rng = ctx.rng(&format!("tree/{}", ev.name()), i);
                    let depth = 2 + rng.below(5);
                    let (ast, s) = crate::gen::gen_expr(&cfg, &mut rng, depth);
                    let case = Case::new(ev, "tree", &s, Val::zero(ev)).with_extra(&shape_of(&ast));
                    ctx.check(&case, &|c, st| self.judge(c, st));
                }
            }
            // long flat chains of one precedence class (33 terms and more, some far beyond 256 characters):
            // left-to-right grouping must hold however long the chain is; operands of mixed magnitude
            // make every other order of evaluation visible in f64
            let terms: Vec<&str> = match ev {
                Ev::I64 => vec!["1", "2", "3", "7", "1000000007", "4611686018427387904", "5"],
                Ev::Dec => vec!["1", "0.1", "0.5", "3", "7922816251426433759354395033", "0.0000000000000000000000000001", "2.5"],
                Ev::Cpx => vec!["1", "2i", "0.5", "(1+i)", "3", "(2-0.5i)"],
                _ => vec!["1", "0.1", "0.5", "3", "9007199254740992", "10000000000000000", "0.25", "7", "1000000.5"],
            };
            let n_chain = ctx.tier.pick(6_000u64, 100_000);
            for i in 0..n_chain {
                if ctx.mine() {
                    let mut rng = ctx.rng(&format!("chain/{}", ev.name()), i);
                    let ops: Vec<&str> = match rng.below(3) {
                        0 => vec!["+", "-"],
                        1 if has_fact_mod(ev) => vec!["*", "/", "%"],
                        1 => vec!["*", "/"],
                        _ => vec!["+", "-", "+-", "--", "+"],
                    };
                    // one chain in fifty is several hundred terms long
                    let (n_terms, max_chars) = if i % 50 == 0 { (150 + rng.below(350), 6000) } else { (33 + rng.below(80), 256) };
                    let mut t = String::from(*rng.pick(&terms));
                    let mut count = 1;
                    while count < n_terms {
                        let piece = format!("{}{}", *rng.pick(&ops), *rng.pick(&terms));
                        if t.chars().count() + piece.chars().count() > max_chars {
                            break;
                        }
                        t.push_str(&piece);
                        count += 1;
                    }
                    if count >= 33 {
                        let case = Case::new(ev, "chain", &t, Val::zero(ev)).with_extra("long chain");
                        ctx.check(&case, &|c, st| self.judge(c, st));
                    }
                }
            }
        }
    }
    fn judge(&self, case: &Case, st: &mut Stats) -> Verdict {
        let s = &case.exprs[0];
        let p = match parse(case.ev, s) {
            Ok(p) if !p.unspec => p,
            _ => return Verdict::Skip("not-a-specified-sentence"),
        };
        let o = sut::call(case.ev, s, &case.phs[0]);
        let rv = judge_ref(case.ev, &p.ast, &case.phs[0], &o, false);
        let v = to_verdict("C04", case.ev, &case.extra, rv, false);
        if let Verdict::Pass { .. } = v {
            // operator adjacency coverage from the skeleton text
            let parts: Vec<&str> = case.extra.split(' ').collect();
            if case.kind == "skeleton" {
                let ops: Vec<&str> = parts.iter().copied().filter(|t| *t != "N").collect();
                for w in ops.windows(2) {
                    st.cover(&format!("operator_pairs.{}", case.ev.name()), &format!("{} {}", w[0], w[1]));
                }
            }
            st.inc(&format!("judged.{}", case.kind));
        }
        v
    }
    fn rule(&self) -> &'static str {
        "skeletons = every sequence up to the stated length over {operand slot, every binary/prefix/postfix operator, superscript, every bracket kind} that the reference grammar accepts (so every ordered pair and triple of adjacent operators occurs), each run under 3 assignments of small distinct exactly-representable operands (generic complex pairs for eval_complex); plus random operator trees of depth<=6; plus flat chains of 33..110 terms of one precedence class (+ -, * / %, or + - with prefix signs) over operands of mixed magnitude, one in fifty with 150..500 terms; the value must equal the reference evaluation of the independently derived tree (bit-exact for f64, exact for i64/decimal/number, component-exact or 1e-9 for complex); non-trivial = accepted, specified grouping, reference gives a verdict; distinct = distinct (evaluator, expression)"
    }
    fn assumptions(&self) -> Vec<&'static str> {
        vec![
            "operands are chosen so that alternative groupings give different values; a skeleton whose reference value is unspecified (non-integer factorial, overflow in an unspecified region) gets no verdict",
            "local operator correctness is C05-C09's business; a mismatch here is reported with the skeleton as signature",
        ]
    }
    fn floors(&self, t: Tier) -> Vec<(String, u64)> {
        vec![("judged.skeleton".into(), t.pick(20_000, 200_000)), ("judged.skeleton-in-context".into(), t.pick(5_000, 50_000)), ("judged.chain".into(), t.pick(2_000, 30_000)), ("set:operator_pairs.f64".into(), 100), ("set:operator_pairs.i64".into(), 100), ("set:operator_pairs.decimal".into(), 60), ("set:operator_pairs.complex".into(), 40), ("set:operator_pairs.number".into(), 100)]
    }
    fn exhaustive(&self) -> bool {
        false
    }
}
