//! C12 — juxtaposition means multiplication and binds tighter than explicit operators.

use super::Monitor;
use crate::core::*;
use crate::gen::*;
use crate::sut;
use crate::syntax::*;
use crate::val::{Ev, Outcome, ALL_EV};

pub struct C12;

/// Rewrite implicit products as `(A*(R))`: all of them, or only the k-th (pre-order).
pub fn explicit(ast: &Ast, only: Option<usize>, counter: &mut usize) -> Ast {
    let rec = |a: &Ast, counter: &mut usize| Box::new(explicit(a, only, counter));
    match ast {
        Ast::IMul(a, r) => {
            let me = *counter;
            *counter += 1;
            let (a2, r2) = (rec(a, counter), rec(r, counter));
            if only.is_none() || only == Some(me) {
                Ast::Group(Br::Round, Box::new(Ast::Bin(Op::Mul, a2, Box::new(Ast::Group(Br::Round, r2)))))
            } else {
                Ast::IMul(a2, r2)
            }
        }
        Ast::Neg(a) => Ast::Neg(rec(a, counter)),
        Ast::Pos(a) => Ast::Pos(rec(a, counter)),
        Ast::Bin(op, a, b) => {
            let a2 = rec(a, counter);
            let b2 = rec(b, counter);
            Ast::Bin(*op, a2, b2)
        }
        Ast::Sup(a, d) => Ast::Sup(rec(a, counter), d.clone()),
        Ast::Fact(a) => Ast::Fact(rec(a, counter)),
        Ast::Deg(a) => Ast::Deg(rec(a, counter)),
        Ast::Rad(a) => Ast::Rad(rec(a, counter)),
        Ast::Call(f, sp, args) => Ast::Call(*f, sp, args.iter().map(|x| explicit(x, only, counter)).collect()),
        Ast::Group(b, a) => Ast::Group(*b, rec(a, counter)),
        leaf => leaf.clone(),
    }
}

pub fn count_imul(ast: &Ast) -> usize {
    (if matches!(ast, Ast::IMul(..)) { 1 } else { 0 }) + ast.children().iter().map(|c| count_imul(c)).sum::<usize>()
}

/// syntactic context of an implicit product, for coverage
fn contexts(ast: &Ast, parent: &str, out: &mut Vec<String>) {
    if let Ast::IMul(a, r) = ast {
        out.push(format!("{}>{}·{}", parent, a.tag(), r.tag()));
    }
    let me = ast.tag();
    for c in ast.children() {
        contexts(c, &me, out);
    }
}

impl Monitor for C12 {
    fn id(&self) -> &'static str {
        "C12"
    }
    fn run(&self, ctx: &mut Ctx) {
        for ev in ALL_EV {
            let phs = ph_pool(ev);
            // random trees with implicit-product nodes, rendered implicitly and explicitly
            let leaf = hostile_leaf(ev);
            let small = small_leaf(ev);
            let n = ctx.tier.pick(60_000u64, 1_200_000);
            for i in 0..n {
                if !ctx.mine() {
                    continue;
                }
                let mut rng = ctx.rng(&format!("tree/{}", ev.name()), i);
                let cfg = if rng.chance(1, 2) { GenCfg::full(ev, &leaf) } else { GenCfg::full(ev, &small) };
                let depth = 2 + rng.below(5);
                let (ast, s) = gen_expr(&cfg, &mut rng, depth);
                let k = count_imul(&ast);
                if k == 0 {
                    continue;
                }
                let only = if rng.chance(1, 2) { None } else { Some(rng.below(k)) };
                let ex = explicit(&ast, only, &mut 0).render();
                let ph = *rng.pick(&phs);
                ctx.check(&Case::pair(ev, "explicit", &s, ph, &ex, ph), &|c, st| self.judge(c, st));
            }
            // exhaustive short shapes: left factor x right factor x suffix x left context
            let lefts: Vec<&str> = match ev {
                Ev::I64 => vec!["2", "(3)", "abs(4)", "3!", "(3)!", "min(2,5)", "avg()", "avg(4)"],
                Ev::Cpx => vec!["2", "(3)", "abs(4)", "2i", "i", "(1+i)", "sqrt(4)"],
                _ => vec!["2", "(3)", "abs(4)", "3!", "⌊2.5⌋", "⌈2.5⌉", "1.5", "min(2,5)", "(3)!", "avg()", "avg(4)", "sqrt(4)", "med(1)"],
            };
            let rights: Vec<&str> = match ev {
                Ev::I64 => vec!["(3)", "abs(5)", "max(1,4)", "(2+1)", "avg()"],
                Ev::Cpx => vec!["(3)", "abs(5)", "(1-i)", "sqrt(9)"],
                _ => vec!["(3)", "⌊3.5⌋", "⌈3.5⌉", "abs(5)", "sqrt(16)", "(1.5+1)", "avg()"],
            };
            let numrights = ["3", "1.5"];
            let sufs: Vec<&str> = if ev == Ev::Cpx { vec!["", "^2", "²"] } else { vec!["", "^2", "²", "!", "^2!", "!^2"] };
            let ctxs = ["{}", "6/{}", "2^{}", "-{}", "2*{}", "1+{}", "{}*2", "{}+1", "10-{}", "abs({})", "min({},100)", "({})", "2^-{}", "{}/2", "7%{}"];
            for l in &lefts {
                let mut rs: Vec<String> = rights.iter().map(|r| r.to_string()).collect();
                if !l.chars().all(|c| c.is_ascii_digit() || c == '.' || c == 'i') {
                    rs.extend(numrights.iter().map(|r| r.to_string()));
                }
                for r in &rs {
                    for suf in &sufs {
                        for c in ctxs {
                            if c.contains('%') && !has_fact_mod(ev) {
                                continue;
                            }
                            if !ctx.mine() {
                                continue;
                            }
                            let imp = c.replace("{}", &format!("{}{}{}", l, r, suf));
                            let p = match parse(ev, &imp) {
                                Ok(p) if !p.unspec && p.ast.has_imul() => p,
                                _ => continue,
                            };
                            let ex = explicit(&p.ast, None, &mut 0).render();
                            let z = crate::val::Val::zero(ev);
                            ctx.check(&Case::pair(ev, "explicit", &imp, z, &ex, z), &|c, st| self.judge(c, st));
                        }
                    }
                }
            }
            // every sequence of up to 4 (quick) / 5 (thorough) units over the juxtaposition vocabulary -
            // factors, suffixes, constants, a sign and an operator - and up to 5 / 6 over its core: a
            // sequence the grammar accepts is compared with its explicit spelling; one it rejects, but
            // would accept with `*` written at the juxtapositions, must be rejected by the evaluator too
            // (seeded change C12-r8: `(2)3²4` accepted)
            {
                // (text, ends an operand, starts an operand)
                let mut units: Vec<(&str, bool, bool)> = vec![("2", true, true), ("(3)", true, true), ("abs(4)", true, true), ("²", true, false), ("^2", true, false), ("@", true, true), ("-", false, false), ("*", false, false), ("^", false, false)];
                let mut extra: Vec<(&str, bool, bool)> = vec![];
                // values that make the association of a run of factors visible: a zero next to an
                // overflowing partial product, fractions whose products round (seeded change C12-r9: A B C
                // built as (A*B)*C)
                extra.push(("(0)", true, true));
                if ev == Ev::I64 {
                    extra.push(("4611686018427387904", true, true));
                } else {
                    extra.push(("1.5", true, true));
                    extra.push(("0.1", true, true));
                    extra.push(("(0.7)", true, true));
                }
                if has_fact_mod(ev) {
                    units.push(("!", true, false));
                }
                if has_consts(ev) {
                    units.push(("π", true, true));
                    extra.push(("e", true, true));
                }
                if has_floorceil_brackets(ev) {
                    units.push(("⌊2.5⌋", true, true));
                    extra.push(("⌈2.5⌉", true, true));
                }
                if has_degrad(ev) {
                    units.push(("°", true, false));
                    extra.push(("rad", true, false));
                }
                if Func::Max.available(ev) {
                    extra.push(("max(1,2)", true, true));
                }
                if ev == Ev::Cpx {
                    units.push(("i", true, true));
                    extra.push(("2i", true, true));
                }
                let core = units.clone();
                let mut full = units.clone();
                full.extend(extra);
                let z = crate::val::Val::zero(ev);
                for (vocab, maxlen) in [(&full, ctx.tier.pick(4usize, 5)), (&core, ctx.tier.pick(5usize, 6))] {
                    for len in 2..=maxlen {
                        let mut owned: Vec<Vec<usize>> = vec![];
                        for_each_seq(vocab.len(), len, &mut |idx| {
                            // only sequences with at least one juxtaposition (an operand end followed by an operand start)
                            if idx.windows(2).any(|w| vocab[w[0]].1 && vocab[w[1]].2) && ctx.mine() {
                                owned.push(idx.to_vec());
                            }
                        });
                        for idx in owned {
                            let imp: String = idx.iter().map(|i| vocab[*i].0).collect();
                            match parse(ev, &imp) {
                                Ok(p) => {
                                    if !p.unspec && p.ast.has_imul() {
                                        let ex = explicit(&p.ast, None, &mut 0).render();
                                        ctx.check(&Case::pair(ev, "explicit", &imp, z, &ex, z).with_extra("units"), &|c, st| self.judge(c, st));
                                    }
                                }
                                Err(_) => {
                                    let mut star = String::new();
                                    for (k, i) in idx.iter().enumerate() {
                                        if k > 0 && vocab[idx[k - 1]].1 && vocab[*i].2 {
                                            star.push('*');
                                        }
                                        star.push_str(vocab[*i].0);
                                    }
                                    if parse(ev, &star).is_ok() {
                                        ctx.check(&Case::new(ev, "forbidden", &imp, z).with_extra("units"), &|c, st| {
                                            let v = self.judge(c, st);
                                            if let Verdict::Pass { .. } = v {
                                                st.inc("forbidden_unit_sequences_rejected");
                                            }
                                            v
                                        });
                                    }
                                }
                            }
                        }
                    }
                }
            }
            // many products in one input: nested and flat chains
            for k in [5usize, 20, 40, 63, 64, 65, 66, 80, 100, 120] {
                let inner = if ev == Ev::I64 { "1" } else { "1" };
                let nested = format!("{}{}{}", "2(".repeat(k), inner, ")".repeat(k));
                let flat = (0..k).map(|_| "1(1)").collect::<Vec<_>>().join("+");
                let mixed = (0..k).map(|i| if i % 2 == 0 { "(1)(1)" } else { "abs(1)1" }).collect::<Vec<_>>().join("-");
                for imp in [nested, flat, mixed] {
                    if !ctx.mine() {
                        continue;
                    }
                    if let Ok(p) = parse(ev, &imp) {
                        if !p.unspec && p.ast.has_imul() {
                            let ex = explicit(&p.ast, None, &mut 0).render();
                            let z = crate::val::Val::zero(ev);
                            ctx.check(&Case::pair(ev, "explicit", &imp, z, &ex, z), &|c, st| self.judge(c, st));
                        }
                    }
                }
            }
            // forbidden juxtapositions: constants, @, superscripts, ° and rad neither start nor continue a product
            let mut bad: Vec<String> = vec![];
            let consts: Vec<&str> = if has_consts(ev) { vec!["pi", "π", "e", "@"] } else { vec!["@"] };
            let mut starters: Vec<String> = consts.iter().map(|s| s.to_string()).collect();
            starters.extend(["2²".to_string(), "(2)²".to_string(), "@²".to_string()]);
            if has_degrad(ev) {
                starters.extend(["2°".to_string(), "2rad".to_string(), "(2)°".to_string()]);
            }
            let mut followers: Vec<&str> = vec!["(3)", "abs(3)", "3", "(3)!", "max(1,2)"];
            if has_floorceil_brackets(ev) {
                followers.extend(["⌊3⌋", "⌈3⌉"]);
            }
            for st in &starters {
                for f in &followers {
                    bad.push(format!("{}{}", st, f));
                }
                for c in &consts {
                    bad.push(format!("{}{}", st, c));
                }
            }
            for l in ["2", "(2)", "abs(2)", "1.5"] {
                for c in &consts {
                    bad.push(format!("{}{}", l, c));
                }
                bad.push(format!("{}²(3)", l));
            }
            if has_fact_mod(ev) {
                for c in &consts {
                    bad.push(format!("2!{}", c));
                }
            }
            bad.push("2 3".into());
            bad.push("2(3)4 5".into());
            for b in &bad {
                for c in ["{}", "1+{}", "({})", "abs({})", "{}*2", "-{}", "2^{}"] {
                    if ctx.mine() {
                        let s = c.replace("{}", b);
                        let ph = phs[1 % phs.len()];
                        ctx.check(&Case::new(ev, "forbidden", &s, ph), &|c, st| self.judge(c, st));
                    }
                }
            }
        }
    }
    fn judge(&self, case: &Case, st: &mut Stats) -> Verdict {
        let ev = case.ev;
        if case.kind == "forbidden" {
            let s = &case.exprs[0];
            if parse(ev, s).is_ok() {
                // e.g. "2 3" is the literal 23 once whitespace is gone: not a juxtaposition
                return Verdict::Skip("accepted-by-reference");
            }
            return match sut::call(ev, s, &case.phs[0]) {
                Outcome::Ok(v) => viol("forbidden-juxtaposition-accepted", format!("C12|{}|forbidden-juxtaposition-accepted|{}", ev.name(), juxta_kind(s)), format!("{} evaluated to {}", s, v.show())),
                Outcome::Err(_) => {
                    st.inc("forbidden_rejected");
                    pass(true)
                }
                _ => Verdict::Skip("panic-or-budget"),
            };
        }
        let (imp, ex) = (&case.exprs[0], &case.exprs[1]);
        // self-check: the explicit spelling must be the tree with the products made explicit
        let (pi, pe) = match (parse(ev, imp), parse(ev, ex)) {
            (Ok(a), Ok(b)) if !a.unspec && !b.unspec => (a, b),
            _ => return Verdict::Skip("not-a-specified-sentence"),
        };
        if !pi.ast.has_imul() {
            return Verdict::Skip("no-implicit-product");
        }
        let a = sut::call(ev, imp, &case.phs[0]);
        let b = sut::call(ev, ex, &case.phs[1]);
        if matches!(a, Outcome::Panic(..) | Outcome::Budget(_)) || matches!(b, Outcome::Panic(..) | Outcome::Budget(_)) {
            return Verdict::Skip("panic-or-budget");
        }
        let _ = pe;
        if a.same(&b) {
            let mut cs = vec![];
            contexts(&pi.ast, "root", &mut cs);
            for c in cs {
                st.cover(&format!("product_contexts.{}", ev.name()), &c);
            }
            st.inc(if a.is_ok() { "pairs_equal_ok" } else { "pairs_equal_err" });
            pass(true)
        } else {
            let mut cs = vec![];
            contexts(&pi.ast, "root", &mut cs);
            viol("implicit-differs-from-explicit", format!("C12|{}|implicit-differs-from-explicit|{}", ev.name(), cs.first().cloned().unwrap_or_default()), format!("{} -> {} but {} -> {}", imp, a.show(), ex, b.show()))
        }
    }
    fn rule(&self) -> &'static str {
        "implicit products in every syntactic context: random trees of depth<=6 containing implicit-product nodes (left factor literal/group/call/factorial, right factor with ^, superscript and ! suffixes) and an exhaustive family left x right x suffix x context (operand of / ^ unary minus * + - %, function argument, bracket); each expression is rendered as written and with one or all products rewritten to `(A*(R))` and the two outcomes must be the same bit for bit (or both Err); plus every forbidden juxtaposition (constant, @, superscript, ° or rad starting or continuing a product; literal followed by constant) in seven contexts, which must be Err; non-trivial = the pair was evaluated / the forbidden input was rejected by the reference; distinct = distinct case"
    }
    fn assumptions(&self) -> Vec<&'static str> {
        vec!["the pair of spellings is produced from the reference tree; grouping of the product itself is decided by the reference grammar (C04 checks values)"]
    }
    fn floors(&self, _t: Tier) -> Vec<(String, u64)> {
        vec![("pairs_equal_ok".into(), 10_000), ("forbidden_rejected".into(), 500), ("set:product_contexts.f64".into(), 40), ("set:product_contexts.i64".into(), 30), ("set:product_contexts.complex".into(), 25)]
    }
}

fn juxta_kind(s: &str) -> String {
    s.chars().map(|c| if c.is_ascii_digit() { '9' } else { c }).take(16).collect()
}
