//! Typed reference evaluation for eval_number: Integer steps in i128, Float steps as IEEE doubles.
//! A node's expectation is a set of acceptable (variant, value) results, so an implementation that
//! canonicalises integral Float results to Integer is accepted wherever the statements leave the
//! variant free, and every ambiguity this creates further up is tracked instead of guessed.

use crate::ref_f64::{self as rf, Q};
use crate::ref_i64::pow_exact;
use crate::syntax::{Ast, Br, Func, Op};
use crate::val::{Outcome, Val};
use std::cmp::Ordering;

#[derive(Clone, Copy, Debug, PartialEq)]
pub enum NV {
    I(i64),
    F(f64),
}

impl NV {
    pub fn f(&self) -> f64 {
        match self {
            NV::I(i) => *i as f64,
            NV::F(f) => *f,
        }
    }
}

#[derive(Clone, Debug)]
pub enum RN {
    /// acceptable results; all alternatives are numerically equal
    Alts(Vec<NV>),
    Rel(f64, f64),
    Abs(f64, f64),
    W(f64),
    OkAny,
    Unspec,
}

const TWO63: f64 = 9223372036854775808.0;

/// exact comparison of two NV values (NaN excluded by the callers)
pub fn cmp_nv(a: &NV, b: &NV) -> Ordering {
    match (a, b) {
        (NV::I(x), NV::I(y)) => x.cmp(y),
        (NV::F(x), NV::F(y)) => x.partial_cmp(y).unwrap_or(Ordering::Equal),
        (NV::I(x), NV::F(y)) => cmp_if(*x, *y),
        (NV::F(x), NV::I(y)) => cmp_if(*y, *x).reverse(),
    }
}

fn cmp_if(i: i64, f: f64) -> Ordering {
    if f >= TWO63 {
        return Ordering::Less;
    }
    if f < -TWO63 {
        return Ordering::Greater;
    }
    let fl = f.floor();
    let fi = fl as i64; // exact: |fl| < 2^63
    match i.cmp(&fi) {
        Ordering::Equal => {
            if f > fl {
                Ordering::Less
            } else {
                Ordering::Equal
            }
        }
        o => o,
    }
}

pub fn num_eq(a: &NV, b: &NV) -> bool {
    match (a, b) {
        (NV::F(x), NV::F(y)) if x.is_nan() || y.is_nan() => x.is_nan() && y.is_nan(),
        (NV::F(x), _) if x.is_nan() => false,
        (_, NV::F(y)) if y.is_nan() => false,
        _ => cmp_nv(a, b) == Ordering::Equal,
    }
}

/// value d, variant free
fn numeric(d: f64) -> Vec<NV> {
    let mut v = vec![NV::F(d)];
    if d.is_finite() && d == d.trunc() && d >= -TWO63 && d < TWO63 {
        v.push(NV::I(d as i64));
    }
    v
}

/// exact integer v, variant free
fn intval(v: i64) -> Vec<NV> {
    let mut a = vec![NV::I(v)];
    let f = v as f64;
    if f < TWO63 && f as i64 == v {
        a.push(NV::F(f));
    }
    a
}

enum Res {
    A(Vec<NV>),
    Other(RN),
}

fn bin_one(op: Op, a: &NV, b: &NV) -> Res {
    if let (NV::I(x), NV::I(y)) = (a, b) {
        let (p, q) = (*x as i128, *y as i128);
        let fits = |r: i128| (i64::MIN as i128..=i64::MAX as i128).contains(&r);
        let (xf, yf) = (*x as f64, *y as f64);
        return match op {
            Op::Add => {
                if fits(p + q) {
                    Res::A(vec![NV::I((p + q) as i64)])
                } else {
                    // the exact result is outside i64: any Integer would claim a value it is not
                    Res::A(vec![NV::F(xf + yf)])
                }
            }
            Op::Sub => {
                if fits(p - q) {
                    Res::A(vec![NV::I((p - q) as i64)])
                } else {
                    // the exact result is outside i64: any Integer would claim a value it is not
                    Res::A(vec![NV::F(xf - yf)])
                }
            }
            Op::Mul => {
                if fits(p * q) {
                    Res::A(vec![NV::I((p * q) as i64)])
                } else {
                    // the exact result is outside i64: any Integer would claim a value it is not
                    Res::A(vec![NV::F(xf * yf)])
                }
            }
            Op::Div => {
                if q != 0 && p % q == 0 && fits(p / q) {
                    Res::A(vec![NV::I((p / q) as i64)])
                } else {
                    Res::A(numeric(xf / yf))
                }
            }
            Op::Mod => {
                if q == 0 || (*x == i64::MIN && *y == -1) {
                    Res::Other(RN::Unspec)
                } else {
                    Res::A(vec![NV::I((p % q) as i64)])
                }
            }
            Op::Pow => {
                if !(0..=u32::MAX as i128).contains(&q) {
                    Res::Other(RN::Unspec)
                } else {
                    match pow_exact(p, q as u64) {
                        Some(v) => Res::A(vec![NV::I(v as i64)]),
                        None => Res::A(numeric(rf::c_pow(xf, yf))),
                    }
                }
            }
            _ => Res::Other(RN::Unspec),
        };
    }
    let (x, y) = (a.f(), b.f());
    match op {
        Op::Add => Res::A(numeric(x + y)),
        Op::Sub => Res::A(numeric(x - y)),
        Op::Mul => Res::A(numeric(x * y)),
        Op::Div => Res::A(numeric(x / y)),
        Op::Mod => Res::A(numeric(rf::c_fmod(x, y))),
        Op::Pow => Res::A(numeric(rf::c_pow(x, y))),
        _ => Res::Other(RN::Unspec),
    }
}

fn neg_one(a: &NV) -> Res {
    match a {
        NV::I(v) => match v.checked_neg() {
            Some(n) => Res::A(vec![NV::I(n)]),
            None => Res::A(numeric(TWO63)),
        },
        NV::F(v) => Res::A(numeric(-v)),
    }
}

fn from_q(r: rf::RF, float_operand: bool) -> Res {
    match r.q {
        Q::Exact | Q::NumEq => {
            if float_operand {
                Res::A(numeric(r.v))
            } else {
                Res::Other(RN::Rel(r.v, 1e-9))
            }
        }
        Q::Rel(t) => Res::Other(RN::Rel(r.v, t)),
        Q::Abs(t) => Res::Other(RN::Abs(r.v, t)),
        Q::W(x) => Res::Other(RN::W(x)),
        Q::OkAny => Res::Other(RN::OkAny),
        Q::Unspec => Res::Other(RN::Unspec),
    }
}

fn func_one(f: Func, a: &[NV]) -> Res {
    use Func::*;
    let anyf = a.iter().any(|x| matches!(x, NV::F(_)));
    match f {
        Mod => bin_one(Op::Mod, &a[0], &a[1]),
        Pow => bin_one(Op::Pow, &a[0], &a[1]),
        Abs => match a[0] {
            NV::I(v) => match v.checked_abs() {
                Some(n) => Res::A(vec![NV::I(n)]),
                None => Res::A(numeric(TWO63)),
            },
            NV::F(v) => Res::A(numeric(v.abs())),
        },
        Sgn => match a[0] {
            NV::I(v) => Res::A(vec![NV::I(v.signum())]),
            NV::F(v) if v.is_nan() => Res::Other(RN::Unspec),
            NV::F(v) => Res::A(numeric(if v > 0.0 {
                1.0
            } else if v < 0.0 {
                -1.0
            } else {
                0.0
            })),
        },
        Floor | Ceil | Round | Trunc => match a[0] {
            NV::I(v) => Res::A(intval(v)),
            NV::F(v) => Res::A(numeric(rf::func_ref(f, &[v]).v)),
        },
        _ => {
            let xs: Vec<f64> = a.iter().map(|x| x.f()).collect();
            from_q(rf::func_ref(f, &xs), anyf)
        }
    }
}

fn fact_one(a: &NV) -> Res {
    match a {
        NV::I(n) if (0..=20).contains(n) => {
            let mut r: i64 = 1;
            for i in 2..=*n {
                r *= i;
            }
            Res::A(vec![NV::I(r)])
        }
        _ => {
            let r = rf::fact_ref(a.f());
            match r.q {
                Q::NumEq | Q::Exact | Q::Rel(_) => Res::Other(RN::Rel(r.v, 1e-9)),
                _ => Res::Other(RN::Unspec),
            }
        }
    }
}

fn agg_combo(f: Func, xs: &[NV]) -> Res {
    if xs.is_empty() {
        return if f == Func::Avg { Res::A(numeric(0.0)) } else { Res::Other(RN::Unspec) };
    }
    if xs.iter().any(|x| !x.f().is_finite()) {
        return Res::Other(RN::Unspec);
    }
    let pick = |v: &NV| match v {
        NV::I(i) => intval(*i),
        NV::F(d) => numeric(*d),
    };
    let mut s = xs.to_vec();
    s.sort_by(cmp_nv);
    // several arguments may compare equal to the selected one while being different values
    // (0.0, -0.0, Integer 0): the statements fix the numeric value only, so each of them is acceptable
    let ties = |k: usize| -> Vec<NV> {
        let mut out: Vec<NV> = vec![];
        for v in s.iter().filter(|v| cmp_nv(v, &s[k]) == Ordering::Equal) {
            for a in pick(v) {
                if !out.iter().any(|o| same_bits(o, &a)) {
                    out.push(a);
                }
            }
        }
        out
    };
    match f {
        Func::Min => Res::A(ties(0)),
        Func::Max => Res::A(ties(s.len() - 1)),
        Func::Med if s.len() % 2 == 1 => Res::A(ties(s.len() / 2)),
        Func::Avg | Func::Med => {
            let fs: Vec<f64> = xs.iter().map(|x| x.f()).collect();
            from_q(rf::agg_ref(f, &fs), false)
        }
        _ => Res::Other(RN::Unspec),
    }
}

/// Apply `g` to every combination of the children's alternatives and merge.
fn combine(children: &[RN], g: &dyn Fn(&[NV]) -> Res) -> RN {
    let mut lists: Vec<&Vec<NV>> = vec![];
    for c in children {
        match c {
            RN::Alts(a) => lists.push(a),
            RN::Unspec => return RN::Unspec,
            _ => {}
        }
    }
    if lists.len() != children.len() {
        // some operand is only approximately known
        return RN::OkAny;
    }
    let mut idx = vec![0usize; lists.len()];
    let mut merged: Option<RN> = None;
    let mut combos = 0;
    loop {
        let args: Vec<NV> = idx.iter().enumerate().map(|(i, k)| lists[i][*k]).collect();
        let r = match g(&args) {
            Res::A(a) => RN::Alts(a),
            Res::Other(o) => o,
        };
        merged = Some(match merged {
            None => r,
            Some(m) => match merge(m, r) {
                Some(x) => x,
                None => return RN::Unspec,
            },
        });
        combos += 1;
        if combos > 64 {
            return RN::Unspec;
        }
        // next combination
        let mut i = 0;
        loop {
            if i == idx.len() {
                return merged.unwrap();
            }
            idx[i] += 1;
            if idx[i] < lists[i].len() {
                break;
            }
            idx[i] = 0;
            i += 1;
        }
    }
}

fn merge(a: RN, b: RN) -> Option<RN> {
    match (a, b) {
        (RN::Alts(mut x), RN::Alts(y)) => {
            if !num_eq(&x[0], &y[0]) {
                return None;
            }
            for v in y {
                // keep alternatives that differ only in the sign of zero: the sign matters further up
                if !x.iter().any(|w| same_bits(w, &v)) {
                    x.push(v);
                }
            }
            Some(RN::Alts(x))
        }
        (RN::Rel(v, t), RN::Rel(w, _)) if rf::close(v, w, 1e-12) => Some(RN::Rel(v, t)),
        (RN::Abs(v, t), RN::Abs(w, _)) if (v - w).abs() <= t => Some(RN::Abs(v, t)),
        (RN::W(x), RN::W(y)) if x == y => Some(RN::W(x)),
        (RN::OkAny, RN::OkAny) => Some(RN::OkAny),
        _ => None,
    }
}

fn same_bits(a: &NV, b: &NV) -> bool {
    match (a, b) {
        (NV::I(x), NV::I(y)) => x == y,
        (NV::F(x), NV::F(y)) => (x.is_nan() && y.is_nan()) || x.to_bits() == y.to_bits(),
        _ => false,
    }
}

fn same(a: &NV, b: &NV) -> bool {
    match (a, b) {
        (NV::I(x), NV::I(y)) => x == y,
        (NV::F(x), NV::F(y)) => (x.is_nan() && y.is_nan()) || x == y,
        _ => false,
    }
}

pub fn lit(t: &str) -> RN {
    if t.contains('.') {
        RN::Alts(vec![NV::F(rf::parse_lit(t))])
    } else {
        match t.parse::<i64>() {
            Ok(v) => RN::Alts(vec![NV::I(v)]),
            Err(_) => RN::Unspec,
        }
    }
}

pub fn eval(ast: &Ast, ph: &NV) -> RN {
    match ast {
        Ast::Lit(t) => lit(t),
        Ast::Ans => RN::Alts(vec![*ph]),
        Ast::Pi(_) => RN::Alts(vec![NV::F(rf::PI)]),
        Ast::E => RN::Alts(vec![NV::F(rf::E)]),
        Ast::Group(Br::Round, a) | Ast::Pos(a) => eval(a, ph),
        Ast::Group(Br::Floor, a) => combine(&[eval(a, ph)], &|v| func_one(Func::Floor, v)),
        Ast::Group(Br::Ceil, a) => combine(&[eval(a, ph)], &|v| func_one(Func::Ceil, v)),
        Ast::Neg(a) => combine(&[eval(a, ph)], &|v| neg_one(&v[0])),
        Ast::Bin(op, a, b) => combine(&[eval(a, ph), eval(b, ph)], &|v| bin_one(*op, &v[0], &v[1])),
        Ast::IMul(a, b) => combine(&[eval(a, ph), eval(b, ph)], &|v| bin_one(Op::Mul, &v[0], &v[1])),
        Ast::Sup(a, d) => match d.parse::<i64>() {
            Ok(e) => combine(&[eval(a, ph)], &|v| bin_one(Op::Pow, &v[0], &NV::I(e))),
            Err(_) => RN::Unspec,
        },
        Ast::Fact(a) => match combine(&[eval(a, ph)], &|v| fact_one(&v[0])) {
            RN::OkAny => RN::Unspec,
            r => r,
        },
        Ast::Deg(a) => combine(&[eval(a, ph)], &|v| {
            let x = v[0].f();
            if x.is_finite() {
                Res::Other(RN::Rel(x * rf::PI / 180.0, 1e-9))
            } else {
                Res::Other(RN::OkAny)
            }
        }),
        Ast::Rad(a) => combine(&[eval(a, ph)], &|v| {
            let x = v[0].f();
            if x.is_finite() {
                Res::Other(RN::Rel(x * 180.0 / rf::PI, 1e-9))
            } else {
                Res::Other(RN::OkAny)
            }
        }),
        Ast::Call(f, _, args) => {
            let rs: Vec<RN> = args.iter().map(|a| eval(a, ph)).collect();
            let r = match f {
                Func::Min | Func::Max | Func::Avg | Func::Med => {
                    if rs.is_empty() {
                        match agg_combo(*f, &[]) {
                            Res::A(a) => RN::Alts(a),
                            Res::Other(o) => o,
                        }
                    } else {
                        combine(&rs, &|v| agg_combo(*f, v))
                    }
                }
                _ => combine(&rs, &|v| func_one(*f, v)),
            };
            match (f, r) {
                (Func::W | Func::ILog, RN::OkAny) => RN::Unspec,
                (_, r) => r,
            }
        }
        _ => RN::Unspec,
    }
}

pub fn val_nv(v: &Val) -> Option<NV> {
    match v {
        Val::NI(i) => Some(NV::I(*i)),
        Val::NF(f) => Some(NV::F(*f)),
        _ => None,
    }
}

pub fn judge(r: &RN, out: &Outcome, panic_counts: bool) -> Option<(&'static str, String)> {
    let g = match out {
        Outcome::Budget(_) => return None,
        Outcome::Panic(m, l) => {
            return if panic_counts && !matches!(r, RN::Unspec) {
                Some(("panic", format!("panicked ({} @{}) where {:?} is due", m, l, r)))
            } else {
                None
            }
        }
        Outcome::Err(m) => {
            return if matches!(r, RN::Unspec) { None } else { Some(("err-where-value", format!("expected {:?}, got Err({})", r, m))) };
        }
        Outcome::Ok(v) => match val_nv(v) {
            Some(g) => g,
            None => return Some(("wrong-type", v.show())),
        },
    };
    match r {
        RN::Alts(a) => {
            if a.iter().any(|x| same(x, &g) || (matches!((x, &g), (NV::F(_), NV::F(_))) && num_eq(x, &g))) {
                None
            } else if a.iter().any(|x| num_eq(x, &g)) {
                Some(("wrong-variant", format!("expected one of {:?}, got {:?}", a, g)))
            } else {
                Some(("wrong-value", format!("expected one of {:?}, got {:?}", a, g)))
            }
        }
        RN::Rel(v, t) => {
            if rf::close(g.f(), *v, *t) {
                None
            } else {
                Some(("outside-tolerance", format!("expected {:?} within {:e}, got {:?}", v, t, g)))
            }
        }
        RN::Abs(v, t) => {
            if (g.f() - v).abs() <= t + 1e-300 {
                None
            } else {
                Some(("outside-tolerance", format!("expected {:?} +- {:e}, got {:?}", v, t, g)))
            }
        }
        RN::W(x) => {
            if rf::w_ok(*x, g.f()) {
                None
            } else {
                Some(("w-identity", format!("w({:?}) returned {:?}", x, g)))
            }
        }
        RN::OkAny | RN::Unspec => None,
    }
}
