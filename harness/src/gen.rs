//! Workload generators: W1 token sequences, W2 character strings, W3 grammar-directed random trees,
//! W4 mutations, W5 magnitude bombs, and the boundary pools of DESIGN Appendix E.

use crate::prng::Rng;
use crate::syntax::*;
use crate::val::{DecV, Ev, Val};

// ---------------------------------------------------------------- pools

pub fn f64_pool() -> Vec<f64> {
    let mut v = vec![
        0.0,
        5e-324,
        2.2250738585072014e-308,
        2.225073858507201e-308,
        1.0,
        0.5,
        1.5,
        2.5,
        0.1,
        0.2,
        0.3,
        1.0 / 3.0,
        2.0,
        3.0,
        7.0,
        10.0,
        4503599627370495.0,
        4503599627370497.0,
        9007199254740991.0,
        9007199254740992.0,
        9007199254740994.0,
        9223372036854775808.0,
        18446744073709551616.0,
        1e15 + 0.5,
        1e16,
        1e17,
        1.7976931348623157e308,
        std::f64::consts::PI,
        std::f64::consts::E,
        1e-7,
        123456.789,
        1e300,
        1e-300,
    ];
    let neg: Vec<f64> = v.iter().map(|x| -x).collect();
    v.extend(neg);
    v
}

/// additional values reachable only through the placeholder
pub fn f64_nonfinite() -> Vec<f64> {
    vec![f64::NAN, f64::from_bits(0x7ff8_0000_0000_0001), f64::from_bits(0xfff0_0000_0000_0001), f64::INFINITY, f64::NEG_INFINITY, -0.0]
}

pub fn i64_pool() -> Vec<i64> {
    vec![
        0,
        1,
        -1,
        2,
        -2,
        3,
        -3,
        7,
        10,
        63,
        64,
        2147483647,
        2147483648,
        4294967296,
        3037000499,
        3037000500,
        4611686018427387904,
        9223372036854775806,
        9223372036854775807,
        -9223372036854775807,
        i64::MIN,
        -2147483648,
        -3037000500,
        20,
        21,
    ]
}

pub fn dec(neg: bool, mant: u128, scale: u32) -> DecV {
    DecV { neg, mant, scale }
}

pub fn dec_pool() -> Vec<DecV> {
    let max = (1u128 << 96) - 1;
    let nines = |n: u32| 10u128.pow(n) - 1;
    let mut v = vec![
        dec(false, 0, 0),
        dec(false, 1, 0),
        dec(false, 1, 1),
        dec(false, 2, 1),
        dec(false, 3, 1),
        dec(false, 110, 2),
        dec(false, 25, 1),
        dec(false, 35, 1),
        dec(false, 5, 1),
        dec(false, 3, 0),
        dec(false, 7, 0),
        dec(false, 1, 28),
        dec(false, 123456789, 4),
        dec(false, max, 0),
        dec(false, max - 1, 0),
        dec(false, max, 28),
        dec(false, max / 2, 0),
        dec(false, 1u128 << 64, 0),
        dec(false, 1u128 << 32, 10),
    ];
    for n in [27u32, 28] {
        for s in [0u32, 1, 14, 27, 28] {
            v.push(dec(false, nines(n), s));
        }
    }
    let neg: Vec<DecV> = v.iter().map(|d| dec(true, d.mant, d.scale)).collect();
    v.extend(neg);
    v.push(dec(false, 0, 28));
    v
}

pub fn cpx_parts() -> Vec<f64> {
    vec![0.5, -0.5, 1.0, -1.0, 2.0, -2.0, 3.25, -3.25, std::f64::consts::PI / 3.0, 7.125, 0.0]
}

pub fn num_pool() -> Vec<Val> {
    let mut v: Vec<Val> = i64_pool().into_iter().map(Val::NI).collect();
    v.extend(f64_pool().into_iter().map(Val::NF));
    v.extend([5.0, 9007199254740992.0, 9223372036854775808.0, -9223372036854775808.0, 1e19].iter().map(|x| Val::NF(*x)));
    v
}

/// hostile placeholder pool of an evaluator (C01, C02, C14)
pub fn ph_pool(ev: Ev) -> Vec<Val> {
    match ev {
        Ev::F64 => f64_pool().into_iter().chain(f64_nonfinite()).map(Val::F).collect(),
        Ev::I64 => i64_pool().into_iter().map(Val::I).collect(),
        Ev::Dec => dec_pool().into_iter().chain([dec(true, 0, 0), dec(true, 0, 28)]).map(Val::D).collect(),
        Ev::Cpx => {
            let mut v = vec![];
            let ps = cpx_parts();
            for a in &ps {
                for b in &ps {
                    v.push(Val::C(*a, *b));
                }
            }
            for x in f64_nonfinite() {
                v.push(Val::C(x, 1.0));
                v.push(Val::C(1.0, x));
                v.push(Val::C(x, x));
            }
            v.push(Val::C(1e308, 1e308));
            v.push(Val::C(5e-324, -5e-324));
            v
        }
        Ev::Num => {
            let mut v = num_pool();
            v.extend(f64_nonfinite().into_iter().map(Val::NF));
            v
        }
    }
}

// ---------------------------------------------------------------- values as expressions

/// decimal expansion without exponent that reads back to the same double (Rust's `Display`)
pub fn f64_literal(x: f64) -> Option<String> {
    if x.is_finite() && (x > 0.0 || (x == 0.0 && x.is_sign_positive())) {
        Some(format!("{}", x))
    } else {
        None
    }
}

/// an expression denoting exactly `x`, if one exists in the literal grammar (finite values only)
pub fn f64_expr(x: f64) -> Option<String> {
    if !x.is_finite() {
        return None;
    }
    if x.is_sign_negative() {
        Some(format!("(-{})", format!("{}", -x)))
    } else {
        Some(format!("{}", x))
    }
}

pub fn i64_expr(x: i64) -> String {
    if x == i64::MIN {
        "(-9223372036854775807-1)".to_string()
    } else if x < 0 {
        format!("(-{})", -(x as i128))
    } else {
        format!("{}", x)
    }
}

/// Integer operand pairs whose sum, difference or product lands within a few hundred of a boundary
/// (+-2^63, +-2^53, 2^31, 2^32, 2^62, 0): range and exactness checks are decided there, and fixed pools
/// of boundary values reach such results only for a handful of operand shapes.
pub fn boundary_seeking(rng: &mut Rng) -> (i64, &'static str, i64) {
    let targets: [i128; 11] = [1 << 63, -(1 << 63), (1 << 63) - 1, 1 << 53, -(1 << 53), 1 << 31, 1 << 32, 1 << 62, -(1 << 62), 0, 1 << 52];
    loop {
        let t = *rng.pick(&targets[..]) + rng.range(-1500, 1500) as i128;
        let k = 1 + rng.below(62);
        let mut a: i128 = (rng.next() >> (64 - k)) as i128;
        if a < 2 {
            a += 2;
        }
        if rng.chance(1, 2) {
            a = -a;
        }
        let (op, b): (&'static str, i128) = match rng.below(3) {
            0 => ("+", t - a),
            1 => ("-", a - t),
            _ => {
                let q = t.div_euclid(a);
                ("*", if rng.chance(1, 2) { q } else { q + 1 })
            }
        };
        if a >= i64::MIN as i128 && a <= i64::MAX as i128 && b >= i64::MIN as i128 && b <= i64::MAX as i128 {
            return (a as i64, op, b as i64);
        }
    }
}

/// Integer (base, exponent) pairs whose power lands next to a range boundary: the base is the
/// exponent-th root of 2^63, 2^64, 2^62, 2^53 or 2^32, give or take two, with either sign - so the
/// power is just inside i64, just outside it, or between 2^63 and 2^64 where an unsigned
/// intermediate still fits (seeded change C06-r9: (-7000)^5 returned as a positive value).
pub fn pow_boundary(rng: &mut Rng) -> (i64, u32) {
    let e = 2 + rng.below(62) as u32;
    let t: f64 = *rng.pick(&[9223372036854775808.0f64, 18446744073709551616.0, 4611686018427387904.0, 9007199254740992.0, 4294967296.0, 13835058055282163712.0][..]);
    let r = t.powf(1.0 / e as f64).floor() as i64;
    let b = (r + rng.range(-2, 3)).max(2);
    (if rng.chance(1, 2) { -b } else { b }, e)
}

pub fn dec_text(d: &DecV) -> String {
    let digits = format!("{}", d.mant);
    let s = d.scale as usize;
    if s == 0 {
        return digits;
    }
    let padded = if digits.len() <= s { format!("{}{}", "0".repeat(s - digits.len() + 1), digits) } else { digits };
    let (a, b) = padded.split_at(padded.len() - s);
    format!("{}.{}", a, b)
}

pub fn dec_expr(d: &DecV) -> String {
    if d.neg {
        format!("(-{})", dec_text(d))
    } else {
        dec_text(d)
    }
}

// ---------------------------------------------------------------- W1 vocabulary

/// Full vocabulary of an evaluator plus the foreign tokens of the others, as text pieces.
pub fn w1_vocab(ev: Ev, full: bool, rot: u64) -> Vec<String> {
    let mut v: Vec<String> =
        ["@", "+", "-", "*", "/", "^", "(", ")", ",", "!", "%", "&", "|", "<<", ">>", "°", "rad", "pi", "π", "e", "⌊", "⌋", "⌈", "⌉", "i"].iter().map(|s| s.to_string()).collect();
    v.extend(["2", "0", "1.5", ".5", "3.", "20", "²", "¹⁰"].iter().map(|s| s.to_string()));
    if ev == Ev::Cpx {
        v.push("2i".into());
    }
    let names: Vec<&str> = SPELLINGS.iter().map(|(s, _)| *s).collect();
    if full {
        for n in names {
            v.push(format!("{}(", n));
            if n == "w" || n == "exp" || n == "pi" {
                v.push(n.to_string());
            }
        }
    } else {
        // one rotating representative per arity class, for this evaluator and one foreign name
        let own = spellings_for(ev);
        for ar in [Arity::One, Arity::Two, Arity::Var] {
            let c: Vec<&(&str, Func)> = own.iter().filter(|(_, f)| f.arity() == ar).collect();
            if !c.is_empty() {
                v.push(format!("{}(", c[(rot as usize) % c.len()].0));
            }
        }
        let foreign: Vec<&(&str, Func)> = SPELLINGS.iter().filter(|(_, f)| !f.available(ev)).collect();
        if !foreign.is_empty() {
            v.push(format!("{}(", foreign[(rot as usize) % foreign.len()].0));
        }
        v.push("w".into());
    }
    v.sort();
    v.dedup();
    v
}

/// Alphabet for W2: keyword letters, digits, punctuation, brackets.
pub fn w2_alphabet() -> Vec<char> {
    let mut a: Vec<char> = "0123456789.+-*/^()!,%@&|<>°πei⌊⌋⌈⌉²¹ ".chars().collect();
    let mut letters: Vec<char> = SPELLINGS.iter().flat_map(|(s, _)| s.chars()).chain("rad".chars()).chain("pi".chars()).collect();
    letters.sort();
    letters.dedup();
    a.extend(letters);
    a.sort();
    a.dedup();
    a
}

/// Enumerate all sequences of length `len` over `n` symbols: calls f(indices).
pub fn for_each_seq(n: usize, len: usize, f: &mut dyn FnMut(&[usize])) {
    let mut idx = vec![0usize; len];
    loop {
        f(&idx);
        let mut i = len;
        loop {
            if i == 0 {
                return;
            }
            i -= 1;
            idx[i] += 1;
            if idx[i] < n {
                break;
            }
            idx[i] = 0;
            if i == 0 {
                return;
            }
        }
    }
}

// ---------------------------------------------------------------- W3 random trees

pub struct GenCfg<'a> {
    pub ev: Ev,
    pub bin_ops: Vec<Op>,
    pub funcs: Vec<Func>,
    pub sign: bool,
    pub fact: bool,
    pub sup: bool,
    pub degrad: bool,
    pub imul: bool,
    pub fc_brackets: bool,
    pub leaf: &'a dyn Fn(&mut Rng) -> Ast,
    pub sup_digits: Vec<&'static str>,
    pub max_len: usize,
}

impl<'a> GenCfg<'a> {
    /// everything the evaluator's grammar offers
    pub fn full(ev: Ev, leaf: &'a dyn Fn(&mut Rng) -> Ast) -> GenCfg<'a> {
        let mut ops = vec![Op::Add, Op::Sub, Op::Mul, Op::Div, Op::Pow];
        if has_fact_mod(ev) {
            ops.push(Op::Mod);
        }
        if has_bitops(ev) {
            ops.extend([Op::Or, Op::And, Op::Shl, Op::Shr]);
        }
        let mut funcs: Vec<Func> = spellings_for(ev).into_iter().map(|(_, f)| f).collect();
        funcs.sort();
        funcs.dedup();
        GenCfg {
            ev,
            bin_ops: ops,
            funcs,
            sign: true,
            fact: has_fact_mod(ev),
            sup: true,
            degrad: has_degrad(ev),
            imul: true,
            fc_brackets: has_floorceil_brackets(ev),
            leaf,
            sup_digits: vec!["2", "3", "0", "1", "10", "4", "5", "6", "7", "8", "9", "12"],
            max_len: 256,
        }
    }
}

fn level_of(op: Op) -> usize {
    match op {
        Op::Or => 0,
        Op::And => 1,
        Op::Shl | Op::Shr => 2,
        Op::Add | Op::Sub => 3,
        Op::Mul | Op::Div | Op::Mod => 4,
        Op::Pow => 5,
    }
}

pub fn pick_spelling(f: Func, rng: &mut Rng) -> &'static str {
    let s = f.spellings();
    s[rng.below(s.len())]
}

/// Generate a node of syntactic level >= `level` (0 = any expression ... 8 = primary).
pub fn gen_node(c: &GenCfg, rng: &mut Rng, level: usize, depth: usize) -> Ast {
    if depth == 0 {
        return (c.leaf)(rng);
    }
    for _ in 0..8 {
        let k = rng.below(100);
        // binary operators
        if k < 40 && !c.bin_ops.is_empty() {
            let op = *rng.pick(&c.bin_ops);
            let l = level_of(op);
            if l < level {
                continue;
            }
            let left = gen_node(c, rng, l, depth - 1);
            let right = if op == Op::Pow { gen_node(c, rng, 6, depth - 1) } else { gen_node(c, rng, l + 1, depth - 1) };
            return Ast::Bin(op, Box::new(left), Box::new(right));
        }
        if k < 46 && c.sign && level <= 6 {
            let a = gen_node(c, rng, 6, depth - 1);
            return if rng.chance(3, 4) { Ast::Neg(Box::new(a)) } else { Ast::Pos(Box::new(a)) };
        }
        if k < 50 && c.sup && level <= 5 {
            let a = gen_node(c, rng, 5, depth - 1);
            return Ast::Sup(Box::new(a), rng.pick(&c.sup_digits).to_string());
        }
        if k < 54 && c.fact && level <= 7 {
            let a = gen_node(c, rng, 7, depth - 1);
            return Ast::Fact(Box::new(a));
        }
        if k < 57 && c.degrad && level <= 4 {
            let a = gen_node(c, rng, 4, depth - 1);
            return if rng.chance(1, 2) { Ast::Deg(Box::new(a)) } else { Ast::Rad(Box::new(a)) };
        }
        if k < 70 {
            let br = if c.fc_brackets && rng.chance(1, 4) {
                if rng.chance(1, 2) {
                    Br::Floor
                } else {
                    Br::Ceil
                }
            } else {
                Br::Round
            };
            return Ast::Group(br, Box::new(gen_node(c, rng, 0, depth - 1)));
        }
        if k < 88 && !c.funcs.is_empty() {
            let f = *rng.pick(&c.funcs);
            let n = match f.arity() {
                Arity::One => 1,
                Arity::Two => 2,
                Arity::Var => {
                    if f == Func::Avg && rng.chance(1, 8) {
                        0
                    } else if rng.chance(1, 25) {
                        18 + rng.below(14)
                    } else {
                        1 + rng.below(4)
                    }
                }
            };
            let args = (0..n).map(|_| gen_node(c, rng, 0, if n > 8 { 0 } else { depth - 1 })).collect();
            return Ast::Call(f, pick_spelling(f, rng), args);
        }
        if k < 96 && c.imul && level <= 6 {
            // left factor: literal, group, call or factorial; right factor R: pow-level, starting with a trigger
            let left = match rng.below(4) {
                0 => (c.leaf)(rng),
                1 => Ast::Group(Br::Round, Box::new(gen_node(c, rng, 0, depth - 1))),
                2 if !c.funcs.is_empty() => {
                    let f = *rng.pick(&c.funcs);
                    let n = match f.arity() {
                        Arity::One => 1,
                        Arity::Two => 2,
                        Arity::Var => {
                            if f == Func::Avg && rng.chance(1, 6) {
                                0
                            } else {
                                1 + rng.below(3)
                            }
                        }
                    };
                    Ast::Call(f, pick_spelling(f, rng), (0..n).map(|_| gen_node(c, rng, 0, depth - 1)).collect())
                }
                _ if c.fact => Ast::Fact(Box::new(gen_node(c, rng, 8, depth - 1))),
                _ => Ast::Group(Br::Round, Box::new(gen_node(c, rng, 0, depth - 1))),
            };
            let mut r = match rng.below(3) {
                0 if !c.funcs.is_empty() => {
                    let f = *rng.pick(&c.funcs);
                    let n = match f.arity() {
                        Arity::One => 1,
                        Arity::Two => 2,
                        Arity::Var => {
                            if f == Func::Avg && rng.chance(1, 6) {
                                0
                            } else {
                                1 + rng.below(3)
                            }
                        }
                    };
                    Ast::Call(f, pick_spelling(f, rng), (0..n).map(|_| gen_node(c, rng, 0, depth - 1)).collect())
                }
                1 if !matches!(left, Ast::Lit(_) | Ast::ImLit(_) | Ast::Ans | Ast::Pi(_) | Ast::E) => (c.leaf)(rng),
                _ => Ast::Group(Br::Round, Box::new(gen_node(c, rng, 0, depth - 1))),
            };
            if c.fact && rng.chance(1, 4) {
                r = Ast::Fact(Box::new(r));
            }
            if rng.chance(1, 4) {
                if c.sup && rng.chance(1, 2) {
                    r = Ast::Sup(Box::new(r), rng.pick(&c.sup_digits).to_string());
                } else if c.bin_ops.contains(&Op::Pow) {
                    r = Ast::Bin(Op::Pow, Box::new(r), Box::new(gen_node(c, rng, 6, depth.saturating_sub(2))));
                }
            }
            return Ast::IMul(Box::new(left), Box::new(r));
        }
        return (c.leaf)(rng);
    }
    (c.leaf)(rng)
}

/// Random well-formed expression: generated tree whose rendering re-parses to itself and fits max_len.
pub fn gen_expr(c: &GenCfg, rng: &mut Rng, depth: usize) -> (Ast, String) {
    for attempt in 0..200 {
        let d = if attempt > 50 { depth.min(2) } else { depth };
        let ast = gen_node(c, rng, 0, d);
        let s = ast.render();
        if s.chars().count() > c.max_len {
            continue;
        }
        match parse(c.ev, &s) {
            Ok(p) if !p.unspec && p.ast == ast => return (ast, s),
            _ => continue,
        }
    }
    let a = (c.leaf)(rng);
    let s = a.render();
    (a, s)
}

// ---------------------------------------------------------------- leaves

pub fn lit(s: &str) -> Ast {
    Ast::Lit(s.to_string())
}

/// hostile leaf: literals of every lexical class, constants, placeholder
pub fn hostile_leaf(ev: Ev) -> impl Fn(&mut Rng) -> Ast {
    move |rng: &mut Rng| {
        let k = rng.below(100);
        if k < 12 {
            return Ast::Ans;
        }
        if k < 20 && has_consts(ev) {
            return match rng.below(3) {
                0 => Ast::Pi(false),
                1 => Ast::Pi(true),
                _ => Ast::E,
            };
        }
        if ev == Ev::Cpx && k < 35 {
            return Ast::ImLit(rng.pick(&["", "2", "0.5", ".5", "3.", "1", "10"]).to_string());
        }
        if ev == Ev::I64 {
            let pool = ["0", "1", "2", "3", "7", "10", "20", "21", "63", "64", "65", "2147483648", "3037000500", "4294967296", "9223372036854775807", "007"];
            return lit(*rng.pick(&pool[..]));
        }
        let pool = [
            "0", "1", "2", "3", "7", "10", "20", "21", "28", "63", "171", "0.5", ".5", "2.", "1.5", "2.5", "0.1", "0.2", "1.10", "3.25", "100", "1000000", "0.000001", "9007199254740993", "9223372036854775807",
            "9223372036854775808", "79228162514264337593543950335", "0.0000000000000000000000000001", "007", "00.50",
        ];
        lit(*rng.pick(&pool[..]))
    }
}

/// small distinct exactly representable operands
pub fn small_leaf(ev: Ev) -> impl Fn(&mut Rng) -> Ast {
    move |rng: &mut Rng| {
        if ev == Ev::I64 {
            return lit(*rng.pick(&["2", "3", "5", "7", "1", "4", "6", "11", "13"][..]));
        }
        if ev == Ev::Cpx && rng.chance(1, 3) {
            return Ast::ImLit(rng.pick(&["", "2", "3", "0.5"]).to_string());
        }
        lit(*rng.pick(&["2", "3", "5", "7", "0.5", "1.25", "4", "1.5", "11", "0.25", "6"][..]))
    }
}

// ---------------------------------------------------------------- W4 mutation

pub fn exotic_chars() -> Vec<char> {
    vec![
        '\0', '\u{7f}', '٣', '３', '\u{301}', '⁻', 'É', '\u{200b}', '\u{feff}', '∞', '×', '÷', '√', '𝟚', '𝑒', '\u{10ffff}', '#', '$', '=', '_', '~', '\\', '"', '\'', '[', ']', '{', '}', ';', ':', '?', 'E', 'I', 'P',
        'x', 'y', 'z', 'ⁱ', '₂', '½',
    ]
}

pub fn mutate(s: &str, rng: &mut Rng, ev: Ev) -> String {
    let mut cs: Vec<char> = s.chars().collect();
    let pieces = w1_vocab(ev, true, 0);
    let n_edits = 1 + rng.below(2);
    for _ in 0..n_edits {
        let pos = if cs.is_empty() { 0 } else { rng.below(cs.len() + 1) };
        match rng.below(11) {
            9 if cs.len() >= 2 => {
                // incomplete input: cut the expression short
                cs.truncate(1 + rng.below(cs.len() - 1));
            }
            10 => {
                // dangling token at the end
                let p = rng.pick(&pieces).clone();
                cs.extend(p.chars());
            }
            0 if !cs.is_empty() => {
                cs.remove(pos.min(cs.len() - 1));
            }
            1 => {
                let p = rng.pick(&pieces).clone();
                for (k, ch) in p.chars().enumerate() {
                    cs.insert((pos + k).min(cs.len()), ch);
                }
            }
            2 if !cs.is_empty() => {
                let i = pos.min(cs.len() - 1);
                let ch = cs[i];
                cs.insert(i, ch);
            }
            3 if cs.len() >= 2 => {
                let i = pos.min(cs.len() - 2);
                cs.swap(i, i + 1);
            }
            4 => {
                let ch = *rng.pick(&['(', ')', '⌊', '⌋', '⌈', '⌉', ',']);
                cs.insert(pos.min(cs.len()), ch);
            }
            5 => {
                let ch = *rng.pick(&exotic_chars());
                cs.insert(pos.min(cs.len()), ch);
            }
            6 if !cs.is_empty() => {
                let i = pos.min(cs.len() - 1);
                cs[i] = *rng.pick(&w2_alphabet());
            }
            7 if !cs.is_empty() => {
                // drop a closing bracket or comma if any
                if let Some(i) = cs.iter().position(|c| *c == ')' || *c == ',') {
                    cs.remove(i);
                }
            }
            _ => {
                let ch = *rng.pick(&WHITE_SPACE);
                cs.insert(pos.min(cs.len()), ch);
            }
        }
    }
    cs.truncate(256);
    cs.into_iter().collect()
}

// ---------------------------------------------------------------- W5 bombs

/// Expressions stressing every looping construct with extreme arguments, and maximal nesting.
/// Two-argument functions and binary operators over a grid of small indices (0..=70) against powers
/// of 10, 2 and 3 and their neighbours - the mid-range combinations that fixed pools of extreme values
/// skip (root(63,10^12), 3^40, 40!/38!): integer fast paths overflow there, not at the type limits.
pub fn int_grid(ev: Ev) -> Vec<String> {
    let mut bs: Vec<i128> = vec![];
    let mut p: i128 = 1;
    for _ in 0..19 {
        bs.push(p);
        p *= 10;
    }
    for k in 1..63 {
        let v = 1i128 << k;
        bs.extend([v, v - 1, v + 1]);
    }
    let mut t: i128 = 3;
    for _ in 0..39 {
        bs.push(t);
        t *= 3;
    }
    bs.sort();
    bs.dedup();
    let mut forms: Vec<String> = vec!["{a}^{b}", "{b}^{a}", "{b}/{a}", "{b}*{a}", "{b}-{a}"].into_iter().map(String::from).collect();
    if has_fact_mod(ev) {
        forms.extend(["{b}%{a}", "{a}!/{b}"].into_iter().map(String::from));
    }
    if has_bitops(ev) {
        forms.extend(["{b}<<{a}", "{b}>>{a}", "{a}<<{b}"].into_iter().map(String::from));
    }
    for f in [Func::Root, Func::Pow, Func::Log, Func::Mod, Func::Atan2, Func::ILog, Func::Gcd, Func::Lcm] {
        if f.available(ev) {
            forms.push(format!("{}({{a}},{{b}})", f.name()));
            forms.push(format!("{}({{b}},{{a}})", f.name()));
        }
    }
    let mut v = vec![];
    for form in &forms {
        for a in 0..=70 {
            for b in &bs {
                v.push(form.replace("{a}", &a.to_string()).replace("{b}", &b.to_string()));
            }
        }
    }
    // a power or a product under a remainder, with moduli on either side of 2^31, sqrt(2^63) and 2^32:
    // modular arithmetic written by hand multiplies remainders, which fits or not depending on the
    // modulus (seeded change C01-r10: x^y % m by modular exponentiation, overflowing for m above 3037000500)
    if has_fact_mod(ev) {
        let moduli = ["2147483647", "2147483648", "3037000499", "3037000501", "3500000000", "4000000000", "4292870399", "4294967291", "4294967295", "4294967296", "4294967297", "9223372036854775807", "1000000007", "(-4294967291)", "(-3037000501)"];
        let bases = ["3", "7", "1234567", "4000000000", "4294967295", "2147483647", "(-3)", "(-1234567)", "65537", "9223372036854775807"];
        let exps = ["2", "3", "64", "1000", "65537", "4294967295"];
        for m in moduli {
            for b in bases {
                for e in exps {
                    v.push(format!("{}^{}%{}", b, e, m));
                    v.push(format!("mod(pow({},{}),{})", b, e, m));
                }
                v.push(format!("{}²%{}", b, m));
                v.push(format!("{}*{}%{}", b, b, m));
                v.push(format!("({}%{})*({}%{})%{}", b, m, b, m, m));
            }
        }
    }
    v
}

pub fn bombs(ev: Ev) -> Vec<String> {
    let mut v: Vec<String> = vec![];
    let big: Vec<&str> = match ev {
        Ev::I64 => vec!["0", "1", "2", "20", "21", "25", "66", "99999", "4294967296", "9223372036854775807", "(-1)", "(-5)", "(0-9223372036854775807-1)", "@"],
        _ => vec![
            "0", "1", "2", "0.5", "20", "21", "27", "28", "170", "171", "99999", "1000000", "4294967296", "9007199254740993", "100000000000000000000", "1e9", "(-1)", "(-0.5)", "(-5)", "(1/0)", "(-1/0)", "(0/0)",
            "0.000001", "79228162514264337593543950335", "(-1/e)", "(0-0.36787944117144233)", "@", "123456789.123456789",
            // just above the branch point of the Lambert W function, where its iteration converges slowest
            "(0-0.36787944)", "(0-0.3678794411714384)", "(0-0.36787944117143867)", "(0-0.367879441)", "(0-0.3678794)", "(0-0.36787944117)",
        ],
    };
    let big: Vec<String> = big.into_iter().filter(|s| *s != "1e9").map(|s| s.to_string()).collect();
    let has = |f: Func| f.available(ev);
    for a in &big {
        if has_fact_mod(ev) {
            v.push(format!("{}!", a));
            v.push(format!("{}!!", a));
            v.push(format!("({}!)!", a));
        }
        if has(Func::W) {
            v.push(format!("w({})", a));
            v.push(format!("lambert_w({})", a));
        }
        for f in [Func::Exp, Func::Exp2, Func::Ln, Func::Lb, Func::Sqrt, Func::Abs, Func::Sgn, Func::Floor, Func::Round, Func::Sin, Func::Tan, Func::Acosh, Func::Atanh] {
            if has(f) {
                v.push(format!("{}({})", f.name(), a));
            }
        }
        v.push(format!("{}^{}", a, a));
        v.push(format!("2^{}", a));
        v.push(format!("{}²⁰", a));
        for b in &big {
            if has(Func::ILog) {
                v.push(format!("ilog({},{})", a, b));
            }
            if has(Func::Gcd) {
                v.push(format!("gcd({},{})", a, b));
                v.push(format!("lcm({},{})", a, b));
                v.push(format!("{}<<{}", a, b));
                v.push(format!("{}>>{}", a, b));
            }
            for f in [Func::Log, Func::Root, Func::Pow, Func::Mod, Func::Min, Func::Avg, Func::Med, Func::Atan2] {
                if has(f) {
                    v.push(format!("{}({},{})", f.name(), a, b));
                }
            }
            v.push(format!("{}/{}", a, b));
            v.push(format!("{}*{}", a, b));
            v.push(format!("{}+{}", a, b));
            v.push(format!("{}-{}", a, b));
            if has_fact_mod(ev) {
                v.push(format!("{}%{}", a, b));
            }
        }
    }
    // every one-argument function on signed zeros, the placeholder and tiny / huge values
    for (sp, f) in spellings_for(ev) {
        if f.arity() == Arity::One {
            for a in ["(-0)", "(-0.0)", "0", "@", "(-@)", "(0*-1)", "(1/0)", "(0/0)", "(-1/0)"] {
                v.push(format!("{}({})", sp, a));
            }
        }
    }
    for a in ["@!", "(-@)!", "@°", "@rad", "-@", "@²", "@^@", "@%@", "@/@", "@-@", "0*@", "@*0"] {
        v.push(a.to_string());
    }
    // long literals, long superscripts
    for n in [19usize, 20, 29, 30, 40, 100, 250] {
        v.push("9".repeat(n));
        v.push(format!("1{}", "0".repeat(n)));
        v.push(format!("0.{}1", "0".repeat(n.min(250))));
        v.push(format!("{}.{}", "1".repeat(n / 2 + 1), "7".repeat(n / 2 + 1)));
        v.push(format!("2{}", "⁹".repeat(n.min(250))));
        v.push(format!("1{}", "⁹".repeat(n.min(250))));
        v.push(format!("{}!", "9".repeat(n)));
    }
    // square roots one to five units of the last place away from perfect squares and other round values, at
    // every scale: an iteration that stops on equality of successive values can alternate there (the pinned
    // tree panicked inside rust_decimal for sqrt(4.0000000000000000000000000003); repaired, Appendix A)
    if ev != Ev::I64 {
        for k in [1u32, 2, 3, 4, 5, 7, 9, 10, 12, 16, 25, 100] {
            for j in 1..=5u32 {
                for sc in [28usize, 27, 20, 15] {
                    let tail = format!("{}{}", "0".repeat(sc - 1), j);
                    v.push(format!("sqrt({}.{})", k * k, tail));
                    v.push(format!("sqrt({}.{})", k * k - 1, "9".repeat(sc - 1) + &(10 - j).to_string()));
                    v.push(format!("sqrt({}.{})", k, tail));
                }
            }
        }
    }
    v.push("1.2.3".into());
    v.push("1..2".into());
    v.push("..".into());
    v.push("5.".into());
    v.push("5.!".into());
    v.push(".5.5".into());
    // maximal nesting at 256 chars of every bracket and prefix kind
    let depth_forms: Vec<(String, String, String)> = vec![
        ("(".into(), "1".into(), ")".into()),
        ("-".into(), "1".into(), "".into()),
        ("+".into(), "1".into(), "".into()),
        ("2(".into(), "1".into(), ")".into()),
        ("⌊".into(), "1".into(), "⌋".into()),
        ("⌈".into(), "1".into(), "⌉".into()),
        ("abs(".into(), "1".into(), ")".into()),
        ("min(".into(), "1".into(), ")".into()),
        ("min(1,".into(), "1".into(), ")".into()),
        ("2^".into(), "1".into(), "".into()),
        ("1-".into(), "1".into(), "".into()),
        ("2*(".into(), "1".into(), ")".into()),
        ("-(".into(), "1".into(), ")".into()),
        // nesting in the first / last argument of multi-argument functions: work that doubles per level
        ("min(".into(), "1".into(), ",2)".into()),
        ("max(".into(), "1".into(), ",2)".into()),
        ("max(2,".into(), "1".into(), ")".into()),
        ("avg(".into(), "1".into(), ",2)".into()),
        ("avg(2,".into(), "1".into(), ")".into()),
        ("med(".into(), "1".into(), ",2)".into()),
        ("med(3,".into(), "1".into(), ",2)".into()),
        ("median(".into(), "1".into(), ",2,3)".into()),
        ("gcd(".into(), "6".into(), ",4)".into()),
        ("lcm(4,".into(), "6".into(), ")".into()),
        ("pow(".into(), "1".into(), ",1)".into()),
        ("pow(1,".into(), "1".into(), ")".into()),
        ("mod(".into(), "7".into(), ",5)".into()),
        ("mod(7,".into(), "5".into(), ")".into()),
        ("log(".into(), "9".into(), ",3)".into()),
        ("root(2,".into(), "4".into(), ")".into()),
        ("atan2(".into(), "1".into(), ",1)".into()),
        ("ilog(".into(), "9".into(), ",3)".into()),
        ("sqrt(".into(), "4".into(), ")".into()),
        ("w(".into(), "1".into(), ")".into()),
        ("(".into(), "1".into(), ")!".into()),
        ("(".into(), "2".into(), ")²".into()),
        ("1+(".into(), "1".into(), ")*1".into()),
    ];
    for (open, mid, close) in depth_forms {
        let ol = open.chars().count();
        let cl = close.chars().count();
        let n = (256 - mid.len()) / (ol + cl).max(1);
        for k in [n, n / 2, 10, 13, 16, 20] {
            if k > n {
                continue;
            }
            v.push(format!("{}{}{}", open.repeat(k), mid, close.repeat(k)));
            // unbalanced variant
            v.push(format!("{}{}", open.repeat((256 - mid.len()) / ol.max(1)), mid));
        }
    }
    // two nesting constructs in alternation (continued fractions 1+1/(1+1/(…)), nested radicals
    // sqrt(1+sqrt(1+…)), …): work that doubles wherever one kind of node sits over another (seeded change
    // C02-r10: an integer fast path that evaluates a non-integer operand twice, 2^depth in alternation only)
    {
        let units: Vec<(&str, &str)> = vec![("1+(", ")"), ("2*(", ")"), ("1/(", ")"), ("-(", ")"), ("sqrt(", ")"), ("abs(", ")"), ("(", ")"), ("⌊", "⌋"), ("max(1,", ")"), ("1-(", ")"), ("0.5+(", ")"), ("round(", ")"), ("2^(", ")"), ("(1)(", ")"), ("1+1/(", ")"), ("1+sqrt(", ")")];
        for (i, (ao, ac)) in units.iter().enumerate() {
            for (j, (bo, bc)) in units.iter().enumerate() {
                if i == j {
                    continue;
                }
                let per = ao.chars().count() + ac.chars().count() + bo.chars().count() + bc.chars().count();
                let max_k = 254 / per;
                for k in [max_k, max_k / 2, 8, 12] {
                    if k == 0 || k > max_k {
                        continue;
                    }
                    let open: String = (0..k).map(|_| format!("{}{}", ao, bo)).collect();
                    let close: String = (0..k).map(|_| format!("{}{}", bc, ac)).collect();
                    v.push(format!("{}1{}", open, close));
                }
            }
        }
    }
    v.push("1".to_string() + &"!".repeat(255));
    v.push("3".to_string() + &"!".repeat(255));
    v.push("1".to_string() + &"+1".repeat(127));
    v.push("1".to_string() + &"^1".repeat(127));
    v.push("2".to_string() + &"²".repeat(255));
    // long aggregate argument lists with non-finite, failing and placeholder arguments in every position class
    {
        let specials: Vec<&str> = match ev {
            Ev::I64 => vec!["@", "1/0", "(0-9223372036854775807-1)", "9223372036854775807", "0", "(-1)"],
            Ev::Cpx => vec![],
            _ => vec!["0/0", "@", "1/0", "(-1/0)", "w(-5)", "(0-0)", "0.5", "(-0.0)"],
        };
        let aggs: Vec<&str> = if ev == Ev::I64 { vec!["min", "max", "avg", "med", "median", "gcd", "lcm"] } else { vec!["min", "max", "avg", "med", "median"] };
        for f in &aggs {
            for sp in &specials {
                for n in [3usize, 8, 20, 21, 22, 33, 50] {
                    for pos in [0usize, n / 2, n - 1] {
                        let mut args: Vec<String> = (0..n).map(|i| (((i * 37 + 11) % 97) as i64 - 20).to_string()).map(|t| if t.starts_with('-') { format!("({})", t) } else { t }).collect();
                        args[pos] = sp.to_string();
                        if n > 20 {
                            args[(pos + 7) % n] = sp.to_string();
                        }
                        let e = format!("{}({})", f, args.join(","));
                        if e.chars().count() <= 256 {
                            v.push(e);
                        }
                    }
                }
            }
        }
    }
    v.push("min(".to_string() + &"1,".repeat(125) + "1)");
    v.push("med(".to_string() + &"1,".repeat(125) + "1)");
    v.push("gcd(".to_string() + &"6,".repeat(125) + "4)");
    v.push("(".repeat(256));
    v.push(")".repeat(256));
    v.push("".into());
    v.push(" ".repeat(256));
    v.push("\u{3000}".repeat(256));
    v.sort();
    v.dedup();
    v
}

// ---------------------------------------------------------------- repetition workload

/// One construct repeated k times in one input - nested, chained flat, or as an argument list - for
/// counts around the powers of two where a depth or count guard, a fixed table or a small-vector
/// threshold would sit (seeded changes C11-r8, C13-r8, C15-r8, C20-r8: nesting guards of 64, 128
/// and 256 levels, three of them leaking one level per aggregate call). Well-formed, every
/// operation defined, small values; no `@`. Returns (family, k, text). `max_n` bounds k: the
/// unoptimised library needs about 12 KiB of stack per nesting level.
pub fn repetitions(ev: Ev, max_n: usize) -> Vec<(String, usize, String)> {
    let mut ks: Vec<usize> = vec![2, 3, 5, 9, 15, 16, 17, 31, 32, 33, 48, 100, 126, 127, 128, 129, 130, 131, 192, 200, 254, 255, 256, 257, 258, 300, 384, 400, 500, 511, 512, 513, 640, 1000];
    ks.extend(60..=68);
    ks.sort();
    ks.dedup();
    ks.retain(|k| *k <= max_n);
    let mut v: Vec<(String, usize, String)> = vec![];
    let frac = if ev == Ev::I64 { "7" } else { "2.5" };
    // nests: (family, open, innermost, close)
    let mut nests: Vec<(&str, String, String, String)> = vec![
        ("nest ( )", "(".into(), "7".into(), ")".into()),
        ("nest -( )", "-(".into(), "7".into(), ")".into()),
        ("nest 2*( )", "2*(".into(), "1".into(), ")".into()),
        ("nest 1+( )", "1+(".into(), "1".into(), ")".into()),
        ("nest ( )+1", "(".into(), "1".into(), ")+1".into()),
        ("nest abs( )", "abs(".into(), "7".into(), ")".into()),
        ("nest 1( ) juxtaposed", "1(".into(), "7".into(), ")".into()),
    ];
    if has_floorceil_brackets(ev) {
        nests.push(("nest ⌊ ⌋", "⌊".into(), frac.into(), "⌋".into()));
        nests.push(("nest ⌈ ⌉", "⌈".into(), frac.into(), "⌉".into()));
        nests.push(("nest ⌊( )⌋", "⌊(".into(), frac.into(), ")⌋".into()));
    }
    if Func::Floor.available(ev) {
        nests.push(("nest floor( )", "floor(".into(), frac.into(), ")".into()));
    }
    if Func::Mod.available(ev) {
        nests.push(("nest mod( ,1000)", "mod(".into(), "789".into(), ",1000)".into()));
        nests.push(("nest (( )%(1000))", "((".into(), "789".into(), ")%(1000))".into()));
    }
    for (f, a, b) in [("max", "", ",0"), ("max", "0,", ""), ("min", "9,", ""), ("min", "", ",9"), ("avg", "", ""), ("avg", "", ",7"), ("med", "", ""), ("median", "1,", ",9"), ("gcd", "", ",14"), ("lcm", "1,", "")] {
        let fu = match SPELLINGS.iter().find(|(s, _)| *s == f) {
            Some((_, fu)) => *fu,
            None => continue,
        };
        if fu.available(ev) {
            nests.push(("nest aggregate", format!("{}({}", f, a), "7".into(), format!("{})", b)));
        }
    }
    for (fam, open, mid, close) in &nests {
        // recursion levels per repetition, counted generously: every bracket and operator of the unit
        let per = open.chars().chain(close.chars()).filter(|c| "(⌊⌈-+*%".contains(*c)).count().max(1) + if open.starts_with(|c: char| c.is_ascii_digit()) { 1 } else { 0 };
        for k in &ks {
            if *k * per > max_n {
                continue;
            }
            let fam = if *fam == "nest aggregate" { format!("nest {}…{}", open, close) } else { fam.to_string() };
            v.push((fam, *k, format!("{}{}{}", open.repeat(*k), mid, close.repeat(*k))));
        }
    }
    // flat chains of k terms
    let mut terms: Vec<(&str, &str)> = vec![("chain (1)+", "(1)"), ("chain abs(1)+", "abs(1)"), ("chain 2(1)+", "2(1)")];
    if has_floorceil_brackets(ev) {
        terms.push(("chain ⌊1.5⌋+", if ev == Ev::I64 { "1" } else { "⌊1.5⌋" }));
    }
    if Func::Max.available(ev) {
        terms.extend([("chain max(1,2)+", "max(1,2)"), ("chain min(3)+", "min(3)"), ("chain avg(1,2,3)+", "avg(1,2,3)"), ("chain med(1,2,3)+", "med(1,2,3)"), ("chain avg()+", "avg()")]);
    }
    if Func::Gcd.available(ev) {
        terms.extend([("chain gcd(4,6)+", "gcd(4,6)"), ("chain lcm(2,3)+", "lcm(2,3)")]);
    }
    if has_fact_mod(ev) {
        terms.push(("chain 3!+", "3!"));
    }
    for (fam, t) in &terms {
        for k in &ks {
            v.push((fam.to_string(), *k, vec![*t; *k].join("+")));
        }
    }
    for k in &ks {
        v.push(("juxtaposed (1)(1)…".into(), *k, "(1)".repeat(*k)));
        v.push(("juxtaposed abs(1)abs(1)…".into(), *k, "abs(1)".repeat(*k)));
    }
    // argument lists of k members, members plain or themselves aggregates
    if Func::Max.available(ev) {
        for k in &ks {
            // plain lists of k non-uniform values for every aggregate (a block-wise or pairwise reduction
            // shows when k is not a multiple of its block: seeded change C11-r10, avg in blocks of 64)
            for name in ["max", "min", "avg", "med", "median"] {
                v.push((format!("list {}(1,…)", name), *k, format!("{}({})", name, (0..*k).map(|i| ((i * 37) % 101 + 1).to_string()).collect::<Vec<_>>().join(","))));
                v.push((format!("list {}(step)", name), *k, format!("{}({})", name, (0..*k).map(|i| if i < *k / 2 { "0" } else { "65" }).collect::<Vec<_>>().join(","))));
            }
            v.push(("list avg(max(1,2),…)".into(), *k, format!("avg({})", (0..*k).map(|i| format!("max({},{})", i % 7 + 1, i % 5 + 2)).collect::<Vec<_>>().join(","))));
            v.push(("list med(min(3),…)".into(), *k, format!("med({})", (0..*k).map(|i| format!("min({})", i % 11)).collect::<Vec<_>>().join(","))));
            if Func::Gcd.available(ev) {
                v.push(("list gcd(lcm(4,6),…)".into(), *k, format!("gcd({})", vec!["lcm(4,6)"; *k].join(","))));
            }
        }
        // closed aggregate calls followed by nested brackets
        for (m, n) in [(40usize, 30usize), (60, 10), (30, 40), (100, 30), (120, 12), (200, 60), (250, 10), (300, 100)] {
            if m + n <= max_n {
                v.push(("chain min(1,2)+ then nest".into(), m + n, format!("{}{}1{}", "min(1,2)+".repeat(m), "(".repeat(n), ")".repeat(n))));
            }
        }
    }
    v
}

/// Largest repetition count per build configuration: the unoptimised library overflows an 8 MiB
/// stack at about 600 nesting levels, the optimised one is far from it at 2000.
pub fn rep_cap(config: &str) -> usize {
    if config == "release" {
        1000
    } else {
        400
    }
}

// ---------------------------------------------------------------- shape family

/// Three-level expressions `f(A op B)` over every one-argument function (and bracket, sign, postfix)
/// of the evaluator, every arithmetic operator, and operand *shapes* - a literal, its square in the
/// three spellings, a negated, a bracketed, a function of a literal - with values whose arithmetic
/// rounds (0.1, 5.8, 1.5, 0.7) or over/underflows (1e200, 1e-200 spelled out): an evaluator that
/// recognises a shape and takes a shortcut (sqrt(a²+b²) as hypot - seeded changes C05-r9, C20-r9 - a
/// fused multiply-add, a strength-reduced power) computes something other than the tree says.
/// Returns (context with `{h}` for the hole, E = `A op B`).
pub fn shape_family(ev: Ev) -> Vec<(String, String)> {
    let mut ctxs: Vec<String> = vec!["{h}".into(), "-{h}".into(), "({h})".into(), "{h}²".into(), "{h}^2".into(), "{h}*1".into(), "1*{h}".into(), "{h}^0.5".into()];
    if ev == Ev::I64 {
        ctxs.retain(|c| c != "{h}^0.5");
    }
    if has_floorceil_brackets(ev) {
        ctxs.extend(["⌊{h}⌋".to_string(), "⌈{h}⌉".to_string()]);
    }
    if has_degrad(ev) {
        ctxs.extend(["({h})°".to_string(), "({h})rad".to_string()]);
    }
    for (sp, f) in spellings_for(ev) {
        match f.arity() {
            Arity::One => ctxs.push(format!("{}({{h}})", sp)),
            Arity::Two if matches!(f, Func::Pow | Func::Root | Func::Atan2 | Func::Log | Func::Mod) => {
                ctxs.push(format!("{}({{h}},2)", sp));
                ctxs.push(format!("{}(2,{{h}})", sp));
            }
            Arity::Var if matches!(f, Func::Max | Func::Avg | Func::Med) => ctxs.push(format!("{}({{h}},1)", sp)),
            _ => {}
        }
    }
    let vals: Vec<(&str, &str)> = match ev {
        Ev::I64 => vec![("3", "4"), ("7", "2"), ("3037000500", "3"), ("12", "5"), ("(-7)", "2"), ("5", "(-2)")],
        Ev::Cpx => vec![("0.1", "0.4"), ("5.8", "1.5"), ("2i", "0.7"), ("3", "4")],
        Ev::Dec => vec![("0.1", "0.4"), ("5.8", "1.5"), ("3", "4"), ("0.0000000000000000000000000007", "3")],
        _ => vec![
            ("0.1", "0.4"),
            ("5.8", "1.5"),
            ("3", "4"),
            ("0.7", "0.3"),
            // negative and half-way quotients (seeded change C15-r10: round of an Integer quotient, ties)
            ("(-7)", "2"),
            ("5", "(-2)"),
            ("100000000000000000000000000000000000000000000000000000000000000000000000000000000000000000000000000000000000000000000000000000000000000000000000000000000000000000000000000000000000000000000000000000000", "100000000000000000000000000000000000000000000000000000000000000000000000000000000000000000000000000000000000000000000000000000000000000000000000000000000000000000000000000000000000000000000000000000000"),
            ("0.00000000000000000000000000000000000000000000000000000000000000000000000000000000000000000000000000000000000000000000000000000000000000000000000000000000000000000000000000000000000000000000000000000001", "0.00000000000000000000000000000000000000000000000000000000000000000000000000000000000000000000000000000000000000000000000000000000000000000000000000000000000000000000000000000000000000000000000000000001"),
        ],
    };
    let mut shapes: Vec<&str> = vec!["{v}", "{v}^2", "{v}²", "pow({v},2)", "(-{v})", "({v})", "abs({v})", "{v}^3", "2*{v}", "{v}/3"];
    if Func::Sqrt.available(ev) {
        shapes.push("sqrt({v})");
    }
    if ev != Ev::I64 && ev != Ev::Dec {
        shapes.push("exp({v})");
    }
    let mut ops: Vec<&str> = vec!["+", "-", "*", "/"];
    if has_fact_mod(ev) {
        ops.push("%");
    }
    let mut out = vec![];
    for (va, vb) in &vals {
        for a in &shapes {
            for b in &shapes {
                // keep the family affordable: the second operand takes every shape only against the
                // plain and squared first operands, otherwise it mirrors the first
                if !(a.starts_with("{v}") && (*a == "{v}" || a.ends_with("^2") || a.ends_with('²'))) && a != b && *a != "pow({v},2)" {
                    continue;
                }
                for op in &ops {
                    let e = format!("{}{}{}", a.replace("{v}", va), op, b.replace("{v}", vb));
                    for c in &ctxs {
                        out.push((c.clone(), e.clone()));
                    }
                }
            }
        }
    }
    out
}

// ---------------------------------------------------------------- repeated-operand family

/// Three operations sharing an operand: `((a o1 b) o2 b) o3 b`, its right-nested mirror, and two-argument
/// functions applied to (b, G(a,b)) and (G(a,b), b) - for every choice of operators / functions and value
/// pairs of either sign, with ties and non-dyadic fractions. Idioms such as ((a%n)+n)%n, root(n, x^n),
/// log(b^k, b), (a*b)/b are what peephole rewrites match on (seeded changes C09-r10, C10-r10); the
/// reference evaluates them node by node. Returns (context with `{h}`, E) so that the same members also
/// serve as (context, subexpression) pairs: the hole is the inner two levels.
pub fn repeated_operand_family(ev: Ev) -> Vec<(String, String)> {
    let vals: Vec<(&str, &str)> = match ev {
        Ev::I64 => vec![("7", "(-3)"), ("(-7)", "3"), ("(-7)", "(-3)"), ("7", "3"), ("10", "(-4)"), ("(-5)", "2"), ("9", "2"), ("(-2)", "4")],
        Ev::Cpx => vec![("(1+2i)", "2"), ("(-3)", "2"), ("2i", "(1-i)"), ("(-2)", "4")],
        Ev::Dec => vec![("7", "(-3)"), ("(-7)", "3"), ("(-7)", "2"), ("2.5", "0.5"), ("(-2.5)", "2"), ("(-2)", "4"), ("0.1", "0.3")],
        _ => vec![("7", "(-3)"), ("(-7)", "3"), ("(-7)", "2"), ("5", "(-2)"), ("2.5", "0.5"), ("(-2.5)", "2"), ("(-2)", "4"), ("(-5)", "2"), ("0.1", "0.3"), ("(3-7)", "2"),
            // (n/d)*d is not n in doubles for these (seeded change C15-r11)
            ("1", "49"), ("3", "98"), ("5", "(-49)"), ("1", "(40+9)")],
    };
    let mut ops: Vec<&str> = vec!["+", "-", "*", "/", "^"];
    if has_fact_mod(ev) {
        ops.push("%");
    }
    let fun2: Vec<&'static str> = spellings_for(ev).into_iter().filter(|(_, f)| f.arity() == Arity::Two && !matches!(f, Func::ILog)).map(|(s, _)| s).collect();
    let fun1: Vec<&'static str> = ["abs", "sqrt", "floor", "ceil", "round", "trunc", "sgn", "exp", "ln"].into_iter().filter(|n| spellings_for(ev).iter().any(|(s, _)| s == n)).collect();
    let mut out = vec![];
    for (a, b) in &vals {
        for o1 in &ops {
            for o2 in &ops {
                let inner_l = format!("({}{}{}){}{}", a, o1, b, o2, b);
                let inner_r = format!("{}{}({}{}{})", b, o2, b, o1, a);
                for o3 in &ops {
                    out.push((format!("{{h}}{}{}", o3, b), inner_l.clone()));
                    out.push((format!("{}{}{{h}}", b, o3), inner_r.clone()));
                }
                for f in &fun1 {
                    out.push((format!("{}({{h}})", f), inner_l.clone()));
                }
            }
            // two-argument functions over (b, a o1 b) and (a o1 b, b), the inner part also as a function
            for f in &fun2 {
                out.push((format!("{}({},{{h}})", f, b), format!("{}{}{}", a, o1, b)));
                out.push((format!("{}({{h}},{})", f, b), format!("{}{}{}", a, o1, b)));
                for g in &fun2 {
                    out.push((format!("{}({},{{h}})", f, b), format!("{}({},{})", g, a, b)));
                    out.push((format!("{}({{h}},{})", f, b), format!("{}({},{})", g, b, a)));
                }
            }
        }
        // superscript forms of the shared exponent
        if let Ok(n) = b.parse::<u32>() {
            for f in &fun2 {
                out.push((format!("{}({},{{h}})", f, b), format!("{}{}", a, crate::syntax::to_sup(&n.to_string()))));
            }
        }
    }
    out
}
