//! Calibration: the reference must reproduce every example the property statements give, before the
//! library is judged (DESIGN §3.3). Also a `probe` command for manual experiments.

use crate::ref_dec::{self, RD};
use crate::ref_f64::{self, Q};
use crate::ref_i64::{self, RI};
use crate::ref_num::{self, NV, RN};
use crate::sut;
use crate::syntax::{parse, WHITE_SPACE};
use crate::val::{DecV, Ev, Val};

fn f64_of(s: &str) -> (f64, Q) {
    let p = parse(Ev::F64, s).unwrap_or_else(|e| panic!("calibration: {} rejected: {}", s, e));
    let r = ref_f64::eval(&p.ast, 0.0);
    (r.v, r.q)
}

pub fn calibrate() -> Result<usize, String> {
    let mut n = 0;
    let mut check = |ok: bool, what: &str| -> Result<(), String> {
        n += 1;
        if ok {
            Ok(())
        } else {
            Err(format!("calibration failed: {}", what))
        }
    };
    // C04 / C12 examples
    for (s, want) in [("-2^2", 4.0), ("-3!", -6.0), ("2^3!", 64.0), ("6/2(3)", 1.0), ("2^3(4)", 4096.0), ("-2(3)!", -12.0), ("2^3^2", 64.0), ("2+3*4", 14.0), ("(2+3)*4", 20.0), ("⌊2.5⌋+⌈2.5⌉", 5.0), ("10-4-3", 3.0), ("2*3^2", 18.0), ("-2²", 4.0)] {
        let (v, _) = f64_of(s);
        check(v == want, &format!("{} should be {} (reference says {})", s, want, v))?;
    }
    // rejected strings named by the statements
    for s in ["1)", "2pi", "1,2", "(1)2)", "2@", "@(2)", "pi(2)", "2²(3)", "3°(2)", "3rad(2)", "(2)pi", "min()", "abs()", "abs(1,2)", "1.2.3", "", "2+", "(2"] {
        for ev in [Ev::F64, Ev::Num] {
            check(parse(ev, s).is_err(), &format!("{} must be rejected for {}", s, ev.name()))?;
        }
    }
    check(parse(Ev::F64, "avg()").is_ok(), "avg() accepted")?;
    check(parse(Ev::I64, "pi").is_err() && parse(Ev::I64, "1.5").is_err() && parse(Ev::Cpx, "5!").is_err() && parse(Ev::Dec, "sin(1)").is_err(), "foreign tokens rejected")?;
    check(parse(Ev::Cpx, "2i(3)").is_ok() && parse(Ev::Cpx, "2i3").is_err() && parse(Ev::Cpx, "ii").is_err(), "complex literal adjacency")?;
    // C07 examples
    let d0 = DecV { neg: false, mant: 0, scale: 0 };
    for (s, m, sc) in [("0.1+0.2", 3u128, 1u32), ("1.10*3", 33, 1)] {
        let p = parse(Ev::Dec, s).map_err(|e| e.to_string())?;
        let ok = match ref_dec::eval(&p.ast, &d0) {
            RD::Exact(r) => r.eq(&crate::bigint::Rat::from_decimal(false, m, sc)),
            _ => false,
        };
        check(ok, &format!("decimal {} exact", s))?;
    }
    // C09 examples
    let ph = NV::I(0);
    for (s, want) in [("2^0.5", 2f64.sqrt()), ("2.5^2", 6.25), ("ceil(2.4)", 3.0), ("floor(-2.5)", -3.0), ("round(2.6)", 3.0)] {
        let p = parse(Ev::Num, s).map_err(|e| e.to_string())?;
        let ok = match ref_num::eval(&p.ast, &ph) {
            RN::Alts(a) => a.iter().any(|x| x.f() == want),
            _ => false,
        };
        check(ok, &format!("number {} = {}", s, want))?;
    }
    // C10 conventions
    let (v, _) = f64_of("sgn(0)");
    check(v == 0.0, "sgn(0)=0")?;
    let (v, _) = f64_of("round(2.5)");
    check(v == 3.0, "round half away from zero")?;
    let p = parse(Ev::Dec, "round(2.5)").map_err(|e| e.to_string())?;
    check(matches!(ref_dec::eval(&p.ast, &d0), RD::Exact(r) if r.eq(&crate::bigint::Rat::from_int(2))), "decimal round half to even")?;
    let (v, _) = f64_of("root(3,8)");
    check((v - 2.0).abs() < 1e-12, "root(n,x)=x^(1/n)")?;
    let (v, _) = f64_of("log(8,2)");
    check((v - 3.0).abs() < 1e-12, "log(x,b)=log_b x")?;
    // C06 examples
    for (s, want) in [("7/2", RI::V(3)), ("-7/2", RI::V(-3)), ("-7%3", RI::V(-1)), ("7%-3", RI::V(1)), ("-8>>1", RI::V(-4)), ("1<<62", RI::V(1 << 62)), ("9223372036854775807+1", RI::MustErr), ("1/0", RI::MustErr), ("1<<64", RI::MustErr), ("21!", RI::MustErr), ("20!", RI::V(2432902008176640000)), ("1|2&3", RI::V(3)), ("1<<2+1", RI::V(8)), ("gcd(12,18)", RI::V(6)), ("lcm(4,6)", RI::V(12)), ("avg(-7,2)", RI::V(-2))] {
        let p = parse(Ev::I64, s).map_err(|e| format!("{}: {}", s, e))?;
        let r = ref_i64::eval(&p.ast, 0);
        check(r == want, &format!("i64 {} should be {:?}, reference says {:?}", s, want, r))?;
    }
    // the big-integer rounding oracle of C19
    {
        use crate::monitors::c19::correctly_rounded as cr;
        let up = |x: f64| f64::from_bits(x.to_bits() + 1);
        check(cr("9007199254740993", 9007199254740992.0) && !cr("9007199254740993", 9007199254740994.0), "tie at 2^53+1 goes to even")?;
        check(cr("9007199254740995", 9007199254740996.0) && !cr("9007199254740995", 9007199254740994.0), "tie at 2^53+3 goes to even")?;
        check(cr("0.1", 0.1) && !cr("0.1", up(0.1)) && !cr("0.1", f64::from_bits(0.1f64.to_bits() - 1)), "0.1 has one nearest double")?;
        check(cr("0", 0.0) && !cr("0", 5e-324) && cr(".5", 0.5) && cr("5.", 5.0), "simple literals")?;
        let max = format!("{}", f64::MAX);
        check(cr(&max, f64::MAX) && !cr(&max, f64::INFINITY), "MAX reads as MAX")?;
        check(cr(&format!("1{}", "0".repeat(309)), f64::INFINITY) && !cr(&format!("1{}", "0".repeat(309)), f64::MAX), "1e309 reads as inf")?;
        check(cr(&format!("0.{}1", "0".repeat(400)), 0.0), "1e-401 reads as 0")?;
    }
    // C18 decoder
    {
        use crate::monitors::c18::expected_from_f64 as ex;
        check(matches!(ex(5.0), Val::NI(5)) && matches!(ex(-0.0), Val::NI(0)) && matches!(ex(2.5), Val::NF(_)), "Number::from expectations")?;
        check(matches!(ex(9223372036854775808.0), Val::NF(_)) && matches!(ex(-9223372036854775808.0), Val::NI(i64::MIN)) && matches!(ex(9223372036854774784.0), Val::NI(9223372036854774784)), "Number::from at 2^63")?;
        check(matches!(ex(f64::NAN), Val::NF(_)) && matches!(ex(f64::INFINITY), Val::NF(_)) && matches!(ex(5e-324), Val::NF(_)), "Number::from non-finite / subnormal")?;
    }
    // White_Space table
    for c in WHITE_SPACE {
        check(c.is_whitespace(), &format!("U+{:04X} is White_Space", c as u32))?;
    }
    let cnt = (0..=0x10ffffu32).filter_map(char::from_u32).filter(|c| c.is_whitespace()).count();
    check(cnt == 25, "exactly 25 White_Space code points")?;
    Ok(n)
}

pub fn main(_args: &[String]) -> i32 {
    match calibrate() {
        Ok(n) => {
            println!("calibration ok: {} statements reproduced by the reference", n);
            0
        }
        Err(e) => {
            println!("INCONCLUSIVE reason={}", e);
            3
        }
    }
}

pub fn parse_ph(ev: Ev, s: Option<&str>) -> Val {
    match s {
        None => Val::zero(ev),
        Some(t) => {
            if let Some(v) = Val::dec(t) {
                return v;
            }
            match ev {
                Ev::F64 => Val::F(t.parse().unwrap_or(0.0)),
                Ev::I64 => Val::I(t.parse().unwrap_or(0)),
                Ev::Num => match t.parse::<i64>() {
                    Ok(i) => Val::NI(i),
                    Err(_) => Val::NF(t.parse().unwrap_or(0.0)),
                },
                _ => Val::zero(ev),
            }
        }
    }
}

pub fn probe(args: &[String]) -> i32 {
    let ev = match args.first().and_then(|s| Ev::parse(s)) {
        Some(e) => e,
        None => {
            eprintln!("probe <f64|i64|decimal|complex|number> <expr> [placeholder]");
            return 2;
        }
    };
    let expr = args.get(1).cloned().unwrap_or_default();
    let ph = parse_ph(ev, args.get(2).map(|s| s.as_str()));
    let h = std::thread::Builder::new().stack_size(8 << 20).spawn(move || {
        let r = sut::call_with(ev, &expr, &ph, 1 << 22, 0);
        println!("sut: {}  (steps {})", r.outcome.show(), r.steps);
        match parse(ev, &expr) {
            Err(e) => println!("ref: Reject ({})", e),
            Ok(p) => {
                println!("ref: Accept unspec={} tree={:?}", p.unspec, p.ast);
                match (ev, &ph) {
                    (Ev::F64, Val::F(x)) => println!("ref value: {:?}", ref_f64::eval(&p.ast, *x)),
                    (Ev::I64, Val::I(x)) => println!("ref value: {:?}", ref_i64::eval(&p.ast, *x)),
                    (Ev::Dec, Val::D(x)) => println!("ref value: {}", ref_dec::show(&ref_dec::eval(&p.ast, x))),
                    (Ev::Cpx, Val::C(a, b)) => println!("ref value: {:?}", crate::ref_cpx::eval(&p.ast, (*a, *b))),
                    (Ev::Num, v) => println!("ref value: {:?}", ref_num::eval(&p.ast, &ref_num::val_nv(v).unwrap())),
                    _ => {}
                }
            }
        }
    });
    let _ = h.map(|h| h.join());
    0
}
