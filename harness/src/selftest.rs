//! Calibration: the reference must reproduce every example the property statements give, before the
//! library is judged (DESIGN §3.3). Also a `probe` command for manual experiments.

use crate::ref_dec::{self, RD};
use crate::ref_f64::{self, Q};
use crate::ref_i64::{self, RI};
use crate::ref_num::{self, NV, RN};
use crate::sut;
use crate::syntax::{parse, WHITE_SPACE};
use crate::val::{DecV, Ev, Val};

fn f64_of(s: &str) -> (f64, Q) {
    let p = parse(Ev::F64, s).unwrap_or_else(|e| panic!("calibration: {} rejected: {}", s, e));
    let r = ref_f64::eval(&p.ast, 0.0);
    (r.v, r.q)
}

pub fn calibrate() -> Result<usize, String> {
    let mut n = 0;
    let mut check = |ok: bool, what: &str| -> Result<(), String> {
        n += 1;
        if ok {
            Ok(())
        } else {
            Err(format!("calibration failed: {}", what))
        }
    };
    // C04 / C12 examples
    for (s, want) in [("-2^2", 4.0), ("-3!", -6.0), ("2^3!", 64.0), ("6/2(3)", 1.0), ("2^3(4)", 4096.0), ("-2(3)!", -12.0), ("2^3^2", 64.0), ("2+3*4", 14.0), ("(2+3)*4", 20.0), ("⌊2.5⌋+⌈2.5⌉", 5.0), ("10-4-3", 3.0), ("2*3^2", 18.0), ("-2²", 4.0)] {
        let (v, _) = f64_of(s);
        check(v == want, &format!("{} should be {} (reference says {})", s, want, v))?;
    }
    // rejected strings named by the statements
    for s in ["1)", "2pi", "1,2", "(1)2)", "2@", "@(2)", "pi(2)", "2²(3)", "3°(2)", "3rad(2)", "(2)pi", "min()", "abs()", "abs(1,2)", "1.2.3", "", "2+", "(2"] {
        for ev in [Ev::F64, Ev::Num] {
            check(parse(ev, s).is_err(), &format!("{} must be rejected for {}", s, ev.name()))?;
        }
    }
    check(parse(Ev::F64, "avg()").is_ok(), "avg() accepted")?;
    check(parse(Ev::I64, "pi").is_err() && parse(Ev::I64, "1.5").is_err() && parse(Ev::Cpx, "5!").is_err() && parse(Ev::Dec, "sin(1)").is_err(), "foreign tokens rejected")?;
    check(parse(Ev::Cpx, "2i(3)").is_ok() && parse(Ev::Cpx, "2i3").is_err() && parse(Ev::Cpx, "ii").is_err(), "complex literal adjacency")?;
    // C07 examples
    let d0 = DecV { neg: false, mant: 0, scale: 0 };
    for (s, m, sc) in [("0.1+0.2", 3u128, 1u32), ("1.10*3", 33, 1)] {
        let p = parse(Ev::Dec, s).map_err(|e| e.to_string())?;
        let ok = match ref_dec::eval(&p.ast, &d0) {
            RD::Exact(r) => r.eq(&crate::bigint::Rat::from_decimal(false, m, sc)),
            _ => false,
        };
        check(ok, &format!("decimal {} exact", s))?;
    }
    // C09 examples
    let ph = NV::I(0);
    for (s, want) in [("2^0.5", 2f64.sqrt()), ("2.5^2", 6.25), ("ceil(2.4)", 3.0), ("floor(-2.5)", -3.0), ("round(2.6)", 3.0)] {
        let p = parse(Ev::Num, s).map_err(|e| e.to_string())?;
        let ok = match ref_num::eval(&p.ast, &ph) {
            RN::Alts(a) => a.iter().any(|x| x.f() == want),
            _ => false,
        };
        check(ok, &format!("number {} = {}", s, want))?;
    }
    // C10 conventions
    let (v, _) = f64_of("sgn(0)");
    check(v == 0.0, "sgn(0)=0")?;
    let (v, _) = f64_of("round(2.5)");
    check(v == 3.0, "round half away from zero")?;
    let p = parse(Ev::Dec, "round(2.5)").map_err(|e| e.to_string())?;
    check(matches!(ref_dec::eval(&p.ast, &d0), RD::Exact(r) if r.eq(&crate::bigint::Rat::from_int(2))), "decimal round half to even")?;
    let (v, _) = f64_of("root(3,8)");
    check((v - 2.0).abs() < 1e-12, "root(n,x)=x^(1/n)")?;
    let (v, _) = f64_of("log(8,2)");
    check((v - 3.0).abs() < 1e-12, "log(x,b)=log_b x")?;
    // C06 examples
    for (s, want) in [("7/2", RI::V(3)), ("-7/2", RI::V(-3)), ("-7%3", RI::V(-1)), ("7%-3", RI::V(1)), ("-8>>1", RI::V(-4)), ("1<<62", RI::V(1 << 62)), ("9223372036854775807+1", RI::MustErr), ("1/0", RI::MustErr), ("1<<64", RI::MustErr), ("21!", RI::MustErr), ("20!", RI::V(2432902008176640000)), ("1|2&3", RI::V(3)), ("1<<2+1", RI::V(8)), ("gcd(12,18)", RI::V(6)), ("lcm(4,6)", RI::V(12)), ("avg(-7,2)", RI::V(-2))] {
        let p = parse(Ev::I64, s).map_err(|e| format!("{}: {}", s, e))?;
        let r = ref_i64::eval(&p.ast, 0);
        check(r == want, &format!("i64 {} should be {:?}, reference says {:?}", s, want, r))?;
    }
    // the big-integer rounding oracle of C19
    {
        use crate::monitors::c19::correctly_rounded as cr;
        let up = |x: f64| f64::from_bits(x.to_bits() + 1);
        check(cr("9007199254740993", 9007199254740992.0) && !cr("9007199254740993", 9007199254740994.0), "tie at 2^53+1 goes to even")?;
        check(cr("9007199254740995", 9007199254740996.0) && !cr("9007199254740995", 9007199254740994.0), "tie at 2^53+3 goes to even")?;
        check(cr("0.1", 0.1) && !cr("0.1", up(0.1)) && !cr("0.1", f64::from_bits(0.1f64.to_bits() - 1)), "0.1 has one nearest double")?;
        check(cr("0", 0.0) && !cr("0", 5e-324) && cr(".5", 0.5) && cr("5.", 5.0), "simple literals")?;
        let max = format!("{}", f64::MAX);
        check(cr(&max, f64::MAX) && !cr(&max, f64::INFINITY), "MAX reads as MAX")?;
        check(cr(&format!("1{}", "0".repeat(309)), f64::INFINITY) && !cr(&format!("1{}", "0".repeat(309)), f64::MAX), "1e309 reads as inf")?;
        check(cr(&format!("0.{}1", "0".repeat(400)), 0.0), "1e-401 reads as 0")?;
    }
    // C18 decoder
    {
        use crate::monitors::c18::expected_from_f64 as ex;
        check(matches!(ex(5.0), Val::NI(5)) && matches!(ex(-0.0), Val::NI(0)) && matches!(ex(2.5), Val::NF(_)), "Number::from expectations")?;
        check(matches!(ex(9223372036854775808.0), Val::NF(_)) && matches!(ex(-9223372036854775808.0), Val::NI(i64::MIN)) && matches!(ex(9223372036854774784.0), Val::NI(9223372036854774784)), "Number::from at 2^63")?;
        check(matches!(ex(f64::NAN), Val::NF(_)) && matches!(ex(f64::INFINITY), Val::NF(_)) && matches!(ex(5e-324), Val::NF(_)), "Number::from non-finite / subnormal")?;
    }
    // White_Space table
    for c in WHITE_SPACE {
        check(c.is_whitespace(), &format!("U+{:04X} is White_Space", c as u32))?;
    }
    let cnt = (0..=0x10ffffu32).filter_map(char::from_u32).filter(|c| c.is_whitespace()).count();
    check(cnt == 25, "exactly 25 White_Space code points")?;
    Ok(n)
}

pub fn main(_args: &[String]) -> i32 {
    match calibrate() {
        Ok(n) => {
            println!("calibration ok: {} statements reproduced by the reference", n);
            0
        }
        Err(e) => {
            println!("INCONCLUSIVE reason={}", e);
            3
        }
    }
}

pub fn parse_ph(ev: Ev, s: Option<&str>) -> Val {
    match s {
        None => Val::zero(ev),
        Some(t) => {
            if let Some(v) = Val::dec(t) {
                return v;
            }
            match ev {
                Ev::F64 => Val::F(t.parse().unwrap_or(0.0)),
                Ev::I64 => Val::I(t.parse().unwrap_or(0)),
                Ev::Num => match t.parse::<i64>() {
                    Ok(i) => Val::NI(i),
                    Err(_) => Val::NF(t.parse().unwrap_or(0.0)),
                },
                _ => Val::zero(ev),
            }
        }
    }
}

pub fn probe(args: &[String]) -> i32 {
    let ev = match args.first().and_then(|s| Ev::parse(s)) {
        Some(e) => e,
        None => {
            eprintln!("probe <f64|i64|decimal|complex|number> <expr> [placeholder]");
            return 2;
        }
    };
    let expr = args.get(1).cloned().unwrap_or_default();
    let ph = parse_ph(ev, args.get(2).map(|s| s.as_str()));
    let h = std::thread::Builder::new().stack_size(8 << 20).spawn(move || {
        let r = sut::call_with(ev, &expr, &ph, 1 << 22, 0);
        println!("sut: {}  (steps {})", r.outcome.show(), r.steps);
        match parse(ev, &expr) {
            Err(e) => println!("ref: Reject ({})", e),
            Ok(p) => {
                println!("ref: Accept unspec={} tree={:?}", p.unspec, p.ast);
                match (ev, &ph) {
                    (Ev::F64, Val::F(x)) => println!("ref value: {:?}", ref_f64::eval(&p.ast, *x)),
                    (Ev::I64, Val::I(x)) => println!("ref value: {:?}", ref_i64::eval(&p.ast, *x)),
                    (Ev::Dec, Val::D(x)) => println!("ref value: {}", ref_dec::show(&ref_dec::eval(&p.ast, x))),
                    (Ev::Cpx, Val::C(a, b)) => println!("ref value: {:?}", crate::ref_cpx::eval(&p.ast, (*a, *b))),
                    (Ev::Num, v) => println!("ref value: {:?}", ref_num::eval(&p.ast, &ref_num::val_nv(v).unwrap())),
                    _ => {}
                }
            }
        }
    });
    let _ = h.map(|h| h.join());
    0
}

/// One call as the first call of this process; prints the full outcome image.
pub fn fresh(args: &[String]) -> i32 {
    let ev = match args.first().and_then(|s| Ev::parse(s)) {
        Some(e) => e,
        None => return 2,
    };
    let expr = args.get(1).cloned().unwrap_or_default();
    let ph = args.get(2).and_then(|s| Val::dec(s)).unwrap_or(Val::zero(ev));
    let h = std::thread::Builder::new().stack_size(8 * 1024 * 1024 + 256 * 1024).spawn(move || {
        let len = expr.chars().count();
        let o = sut::call_with(ev, &expr, &ph, sut::c02_budget(len), 0).outcome;
        println!("{}", o.enc());
    });
    match h.map(|h| h.join()) {
        Ok(Ok(())) => 0,
        _ => 1,
    }
}

/// `fresh-seq <file>`: the calls of a JSON-lines file, in order, in this (fresh) process; prints one
/// JSON array with the encoded outcomes.
pub fn fresh_seq(args: &[String]) -> i32 {
    use crate::json::J;
    let text = match args.first().map(std::fs::read_to_string) {
        Some(Ok(t)) => t,
        _ => return 2,
    };
    let cases: Vec<crate::core::Case> = text.split('\n').filter(|l| !l.is_empty()).filter_map(|l| J::parse(l).ok()).filter_map(|j| crate::core::Case::from_json(&j)).collect();
    let h = std::thread::Builder::new().stack_size(8 * 1024 * 1024 + 256 * 1024).spawn(move || {
        let mut outs: Vec<String> = vec![];
        for c in &cases {
            let len = c.exprs[0].chars().count();
            outs.push(sut::call_with(c.ev, &c.exprs[0], &c.phs[0], sut::c02_budget(len), 0).outcome.enc());
        }
        println!("{}", J::strs(outs).to_string());
    });
    match h.map(|h| h.join()) {
        Ok(Ok(())) => 0,
        _ => 1,
    }
}

/// `fresh-conc <file> <threads>`: in this (fresh) process, `threads` threads leave a barrier together
/// and each runs the calls of the file in order - nothing has been evaluated before, so whatever is
/// built lazily is built under contention; then the calls run once more on one thread. Prints a JSON
/// object {"threads": [[outcome, ...], ...], "after": [outcome, ...]}.
pub fn fresh_conc(args: &[String]) -> i32 {
    use crate::json::J;
    use std::sync::{Arc, Barrier};
    let text = match args.first().map(std::fs::read_to_string) {
        Some(Ok(t)) => t,
        _ => return 2,
    };
    let threads: usize = args.get(1).and_then(|s| s.parse().ok()).unwrap_or(8);
    let cases: Arc<Vec<crate::core::Case>> = Arc::new(text.split('\n').filter(|l| !l.is_empty()).filter_map(|l| J::parse(l).ok()).filter_map(|j| crate::core::Case::from_json(&j)).collect());
    // "rotate": thread t starts t/threads of the way into the list, so that the threads ask for
    // different members at the same moment (results are reported in list order all the same)
    let rotate = args.get(2).map(|s| s == "rotate").unwrap_or(false);
    let run_all = move |cases: &Vec<crate::core::Case>, y: u64, offset: usize| -> Vec<String> {
        let n = cases.len();
        let mut out = vec![String::new(); n];
        for j in 0..n {
            let i = (j + offset) % n;
            let c = &cases[i];
            let len = c.exprs[0].chars().count();
            out[i] = sut::call_with(c.ev, &c.exprs[0], &c.phs[0], sut::c02_budget(len), y).outcome.enc();
        }
        out
    };
    let barrier = Arc::new(Barrier::new(threads));
    let mut hs = vec![];
    for t in 0..threads {
        let (cases, barrier) = (cases.clone(), barrier.clone());
        let h = std::thread::Builder::new().stack_size(8 * 1024 * 1024 + 256 * 1024).spawn(move || {
            sut::install_hook();
            barrier.wait();
            run_all(&cases, if t % 2 == 0 { 0 } else { 1 + t as u64 % 5 }, if rotate { t * cases.len() / threads } else { 0 })
        });
        match h {
            Ok(h) => hs.push(h),
            Err(_) => return 1,
        }
    }
    let mut per_thread: Vec<J> = vec![];
    for h in hs {
        match h.join() {
            Ok(v) => per_thread.push(J::strs(v)),
            Err(_) => return 1,
        }
    }
    let cases2 = cases.clone();
    let after = match std::thread::Builder::new().stack_size(8 * 1024 * 1024 + 256 * 1024).spawn(move || run_all(&cases2, 0, 0)).map(|h| h.join()) {
        Ok(Ok(v)) => v,
        _ => return 1,
    };
    println!("{}", J::obj().set("threads", J::Arr(per_thread)).set("after", J::strs(after)).to_string());
    0
}

/// Write a corpus of hostile calls (JSON lines) for the sanitizer stages: gen-corpus <n> <path> [seed]
pub fn gen_corpus(args: &[String]) -> i32 {
    use crate::gen::*;
    use crate::prng::Rng;
    let n: usize = args.first().and_then(|s| s.parse().ok()).unwrap_or(100);
    let path = match args.get(1) {
        Some(p) => p.clone(),
        None => return 2,
    };
    let seed: u64 = args.get(2).and_then(|s| s.parse().ok()).unwrap_or(1);
    let mut rng = Rng::derive(seed, "corpus", n as u64);
    let mut out = String::new();
    let mut k = 0;
    while k < n {
        for ev in crate::val::ALL_EV {
            let pool = ph_pool(ev);
            let leaf = hostile_leaf(ev);
            let cfg = GenCfg::full(ev, &leaf);
            let d = 1 + rng.below(4);
            let (_, s) = gen_expr(&cfg, &mut rng, d);
            let s = match rng.below(4) {
                0 => mutate(&s, &mut rng, ev),
                1 => {
                    let b = bombs(ev);
                    let pick = b[rng.below(b.len())].clone();
                    // keep interpreted runs short: skip the 256-char nestings most of the time
                    if pick.chars().count() > 80 && rng.chance(3, 4) {
                        s
                    } else {
                        pick
                    }
                }
                _ => s,
            };
            let c = crate::core::Case::new(ev, "corpus", &s, *rng.pick(&pool));
            out.push_str(&c.to_json().to_string());
            out.push('\n');
            k += 1;
        }
    }
    match std::fs::write(&path, out) {
        Ok(()) => 0,
        Err(_) => 2,
    }
}

/// Corpus for the instruction-count stage of C02: every construct of the grammar repeated until the
/// input has (at most) 64, 128 and 256 characters, plus the longest bombs and large random trees.
/// Lines: JSON case with kind = family name, extra = target length.
pub fn gen_work_corpus(args: &[String]) -> i32 {
    use crate::gen::*;
    use crate::prng::Rng;
    use crate::syntax::*;
    let n_random: usize = args.first().and_then(|s| s.parse().ok()).unwrap_or(100);
    let path = match args.get(1) {
        Some(p) => p.clone(),
        None => return 2,
    };
    let seed: u64 = args.get(2).and_then(|s| s.parse().ok()).unwrap_or(1);
    let n_bombs: usize = args.get(3).and_then(|s| s.parse().ok()).unwrap_or(usize::MAX);
    let mut rng = Rng::derive(seed, "work", n_random as u64);
    let mut out = String::new();
    let mut push = |ev: Ev, fam: &str, target: usize, expr: &str, ph: Val| {
        let c = crate::core::Case::new(ev, fam, expr, ph).with_extra(&target.to_string());
        out.push_str(&c.to_json().to_string());
        out.push('\n');
    };
    // the largest m for which f(m) has at most `target` characters
    let fit = |f: &dyn Fn(usize) -> String, target: usize| -> String {
        let (mut lo, mut hi) = (1usize, 300usize);
        while lo < hi {
            let mid = (lo + hi + 1) / 2;
            if f(mid).chars().count() <= target {
                lo = mid;
            } else {
                hi = mid - 1;
            }
        }
        f(lo)
    };
    for ev in crate::val::ALL_EV {
        let ph = ph_pool(ev)[1 % ph_pool(ev).len()];
        let mut fams: Vec<(String, Box<dyn Fn(usize) -> String>)> = vec![];
        let mut ops: Vec<&'static str> = vec!["+", "-", "*", "/", "^"];
        if has_fact_mod(ev) {
            ops.push("%");
        }
        if has_bitops(ev) {
            ops.extend(["|", "&", "<<", ">>"]);
        }
        for op in ops {
            for leafs in ["1", "@", "(2)"] {
                fams.push((format!("chain {} {}", op, leafs), Box::new(move |m| vec![leafs; m + 1].join(op))));
            }
            fams.push((format!("right-nested {}", op), Box::new(move |m| format!("{}1{}", format!("(1{}", op).repeat(m), ")".repeat(m)))));
        }
        for pre in ["-", "+", "-+"] {
            fams.push((format!("prefix-run {}", pre), Box::new(move |m| format!("{}1", pre.repeat(m)))));
        }
        let mut posts: Vec<&'static str> = vec!["²", "¹", "⁰"];
        if has_fact_mod(ev) {
            posts.push("!");
        }
        if has_degrad(ev) {
            posts.extend(["°", "rad"]);
        }
        for post in posts {
            fams.push((format!("postfix-run {}", post), Box::new(move |m| format!("1{}", post.repeat(m)))));
            fams.push((format!("postfix-each {}", post), Box::new(move |m| vec![format!("1{}", post); m].join("+"))));
        }
        fams.push(("superscript-digits".into(), Box::new(|m| format!("1{}", "¹".repeat(m)))));
        fams.push(("nest ()".into(), Box::new(|m| format!("{}1{}", "(".repeat(m), ")".repeat(m)))));
        fams.push(("open-only (".into(), Box::new(|m| format!("{}1", "(".repeat(m)))));
        fams.push(("close-only )".into(), Box::new(|m| format!("1{}", ")".repeat(m)))));
        if has_floorceil_brackets(ev) {
            fams.push(("nest ⌊⌋".into(), Box::new(|m| format!("{}1{}", "⌊".repeat(m), "⌋".repeat(m)))));
            fams.push(("nest ⌈⌉".into(), Box::new(|m| format!("{}1{}", "⌈".repeat(m), "⌉".repeat(m)))));
        }
        fams.push(("implicit (2)(2)".into(), Box::new(|m| "(2)".repeat(m))));
        fams.push(("implicit 2(2(2".into(), Box::new(|m| format!("{}2{}", "2(".repeat(m), ")".repeat(m)))));
        fams.push(("digits".into(), Box::new(|m| "7".repeat(m))));
        fams.push(("zeros".into(), Box::new(|m| format!("{}1", "0".repeat(m)))));
        fams.push(("fraction".into(), Box::new(|m| format!("0.{}", "3".repeat(m)))));
        fams.push(("many literals".into(), Box::new(|m| vec!["1.5"; m].join("+"))));
        fams.push(("white space".into(), Box::new(|m| format!("1{}+{}1", " ".repeat(m / 2), "\u{3000}".repeat(m / 2)))));
        fams.push(("garbage".into(), Box::new(|m| "#".repeat(m))));
        fams.push(("commas".into(), Box::new(|m| format!("max({}1)", ",".repeat(m)))));
        fams.push(("placeholders".into(), Box::new(|m| vec!["@"; m].join("*"))));
        if has_consts(ev) {
            fams.push(("constants".into(), Box::new(|m| vec!["pi"; m].join("+"))));
            fams.push(("constants π e".into(), Box::new(|m| vec!["π*e"; m].join("-"))));
        }
        if ev == Ev::Cpx {
            fams.push(("imaginary literals".into(), Box::new(|m| vec!["2i"; m].join("*"))));
            fams.push(("i run".into(), Box::new(|m| "i".repeat(m))));
        }
        for (sp, f) in spellings_for(ev) {
            match f.arity() {
                Arity::One => {
                    fams.push((format!("nest {}()", sp), Box::new(move |m| format!("{}0.5{}", format!("{}(", sp).repeat(m), ")".repeat(m)))));
                    fams.push((format!("sum of {}()", sp), Box::new(move |m| vec![format!("{}(2)", sp); m].join("+"))));
                }
                Arity::Two => {
                    fams.push((format!("nest {}(x,.)", sp), Box::new(move |m| format!("{}2{}", format!("{}(2,", sp).repeat(m), ")".repeat(m)))));
                    fams.push((format!("nest {}(.,x)", sp), Box::new(move |m| format!("{}2{}", format!("{}(", sp).repeat(m), ",2)".repeat(m)))));
                    fams.push((format!("sum of {}(,)", sp), Box::new(move |m| vec![format!("{}(3,2)", sp); m].join("+"))));
                }
                Arity::Var => {
                    fams.push((format!("args {}", sp), Box::new(move |m| format!("{}({})", sp, vec!["1"; m].join(",")))));
                    fams.push((format!("args {} @", sp), Box::new(move |m| format!("{}({})", sp, vec!["@"; m].join(",")))));
                    fams.push((format!("nest {}(x,.)", sp), Box::new(move |m| format!("{}2{}", format!("{}(1,", sp).repeat(m), ")".repeat(m)))));
                    fams.push((format!("nest {}(.,x)", sp), Box::new(move |m| format!("{}2{}", format!("{}(", sp).repeat(m), ",1)".repeat(m)))));
                    fams.push((format!("wide and deep {}", sp), Box::new(move |m| format!("{}2{}", format!("{}(1,2,3,", sp).repeat(m), ")".repeat(m)))));
                }
            }
        }
        for (name, f) in &fams {
            for target in [64usize, 128, 256] {
                push(ev, name, target, &fit(f.as_ref(), target), ph);
            }
        }
        // magnitude bombs (loops whose trip count comes from a value) and the long nestings
        let mut b: Vec<String> = bombs(ev);
        rng.shuffle(&mut b);
        for s in b.into_iter().take(n_bombs) {
            push(ev, "bomb", 0, &s, *rng.pick(&ph_pool(ev)));
        }
    }
    // large random trees and their mutations
    let mut k = 0;
    while k < n_random {
        for ev in crate::val::ALL_EV {
            let leaf = hostile_leaf(ev);
            let mut cfg = GenCfg::full(ev, &leaf);
            cfg.max_len = 256;
            let d = 5 + rng.below(4);
            let (_, s) = gen_expr(&cfg, &mut rng, d);
            let s = if rng.chance(1, 4) { mutate(&s, &mut rng, ev) } else { s };
            push(ev, "random", 0, &s, *rng.pick(&ph_pool(ev)));
            k += 1;
        }
    }
    match std::fs::write(&path, out) {
        Ok(()) => 0,
        Err(_) => 2,
    }
}

fn esc_tsv(s: &str) -> String {
    let mut o = String::new();
    for c in s.chars() {
        match c {
            '\\' => o.push_str("\\\\"),
            '\t' => o.push_str("\\t"),
            '\n' => o.push_str("\\n"),
            '\r' => o.push_str("\\r"),
            c if (c as u32) < 0x20 || c == '\u{85}' || c == '\u{2028}' || c == '\u{2029}' => o.push_str(&format!("\\u{:06x}", c as u32)),
            c => o.push(c),
        }
    }
    o
}

/// Corpus for C17: every token and function of each evaluator at least once, the precedence
/// skeletons (they exercise the cfg-gated OperatorCategory order), hostile inputs and random trees.
pub fn gen_c17_corpus(args: &[String]) -> i32 {
    use crate::gen::*;
    use crate::prng::Rng;
    use crate::syntax::*;
    let n: usize = args.first().and_then(|s| s.parse().ok()).unwrap_or(1000);
    let path = match args.get(1) {
        Some(p) => p.clone(),
        None => return 2,
    };
    let seed: u64 = args.get(2).and_then(|s| s.parse().ok()).unwrap_or(1);
    let mut rng = Rng::derive(seed, "c17", n as u64);
    let mut lines: Vec<String> = vec![];
    let push = |ev: Ev, expr: &str, ph: Val, lines: &mut Vec<String>| {
        let id = lines.len();
        let case = crate::core::Case::new(ev, "c17", expr, ph);
        lines.push(format!("{}\t{}\t{}\t{}\t{}", id, case.to_json().to_string(), ev.name(), ph.enc(), esc_tsv(expr)));
    };
    for ev in crate::val::ALL_EV {
        let pool = ph_pool(ev);
        // fixed part: vocabulary and precedence skeletons
        for (sp, f) in spellings_for(ev) {
            let e = match f.arity() {
                Arity::One => format!("{}(2)", sp),
                Arity::Two => format!("{}(2,3)", sp),
                Arity::Var => format!("{}(3,1,2)", sp),
            };
            push(ev, &e, pool[0], &mut lines);
            push(ev, &format!("1+{}*2", e), pool[1], &mut lines);
        }
        let mut sk: Vec<&str> = vec!["1+2*3", "2*3+1", "-2^2", "2^3^2", "2^-3", "6/2(3)", "2^3(4)", "-2(3)", "(1+2)*3", "2*(3+4)^2", "1-2-3", "8/4/2", "2+3*4^2", "-3+4", "+5", "2²+1", "2*3²", "@", "@+1", "@*@", "2(3)(4)", "1)", "2+", "(", "", "1 2", "1,2"];
        if has_fact_mod(ev) {
            sk.extend(["-3!", "2^3!", "3!!", "7%4*2", "2*7%4", "-2(3)!", "3!(2)", "5%3+1"]);
        }
        if has_bitops(ev) {
            sk.extend(["1|2&3", "1<<2+1", "8>>1<<2", "6&3|8", "1+2<<3", "2*3&5", "1|2^2", "-1>>1", "7&3<<1", "1<<2*3|1"]);
        }
        if has_degrad(ev) {
            sk.extend(["180°", "3rad", "2*90°", "1+90°", "90°*2"]);
        }
        if has_consts(ev) {
            sk.extend(["pi", "π*2", "e^2", "2*e", "pi+e"]);
        }
        if has_floorceil_brackets(ev) {
            sk.extend(["⌊2.5⌋", "⌈2.5⌉", "2⌊2.5⌋", "⌊2.5⌋⌈1.5⌉", "⌊-2.5⌋*2"]);
        }
        if ev == Ev::Cpx {
            sk.extend(["i", "2i", "i*i", "(1+2i)*(3-4i)", "2i(3)", "1/i"]);
        }
        for s in sk {
            push(ev, s, pool[2 % pool.len()], &mut lines);
        }
        for b in bombs(ev).into_iter().step_by(97) {
            push(ev, &b, pool[3 % pool.len()], &mut lines);
        }
    }
    // long tokens: buffers, caps and number types chosen by cfg show at token lengths just past what the
    // narrowest evaluator of a build needs (19-20 digits for i64, 28-29 for decimal, 308-309 for doubles)
    for ev in crate::val::ALL_EV {
        let ph = ph_pool(ev)[0];
        for n in [17usize, 18, 19, 20, 21, 28, 29, 30, 31, 40, 100, 308, 309, 310, 320] {
            let sup_zeros: String = "⁰".repeat(n);
            let sup_ones: String = "¹".repeat(n);
            let zeros = "0".repeat(n);
            let nines = "9".repeat(n);
            let mut v = vec![
                format!("2{}³", sup_zeros),
                format!("2{}²+1", sup_zeros),
                format!("1{}", sup_ones),
                format!("(1+1){}²", sup_zeros),
                format!("{}7", zeros),
                format!("{}7+1", zeros),
                nines.clone(),
                format!("1{}", zeros),
                format!("{}(2{})", " ".repeat(n), "\t".repeat(n)),
                format!("{}1{}", "(".repeat(n.min(60)), ")".repeat(n.min(60))),
                format!("max({})", vec!["1"; n.min(120)].join(",")),
            ];
            if ev != Ev::I64 {
                v.push(format!("0.{}1", zeros));
                v.push(format!("1.{}", nines));
                v.push(format!("{}.5", nines));
            }
            for e in v {
                push(ev, &e, ph, &mut lines);
            }
        }
    }
    // aggregates over long lists in random order (shuffled distinct values, even and odd counts from 18
    // to 400): shared helper code selected by cfg - a sort in one build, a selection in another - is
    // exercised past the small-slice thresholds of the standard library (seeded change C17-r9: the median
    // of 34 or more values in builds without eval_f64 / eval_number, wrong for a few orders in a hundred)
    {
        let mut rng = Rng::derive(seed, "c17-lists", 0);
        for ev in [Ev::F64, Ev::I64, Ev::Dec, Ev::Num] {
            let ph = ph_pool(ev)[0];
            for i in 0..160usize {
                let n = match i % 4 {
                    0 => 34 + 2 * rng.below(40),
                    1 => 18 + rng.below(30),
                    2 => 64 + 2 * rng.below(170),
                    _ => 20 + 2 * rng.below(100),
                };
                let mut vals: Vec<i64> = (0..n as i64).map(|k| 10 * (k + 1)).collect();
                rng.shuffle(&mut vals);
                let name = ["med", "median", "med", "avg", "max", "min", "med", "median"][i % 8];
                let e = format!("{}({})", name, vals.iter().map(|v| v.to_string()).collect::<Vec<_>>().join(","));
                push(ev, &e, ph, &mut lines);
            }
        }
    }
    // arithmetic on long operands: which algorithms the dependencies were built with (their own cargo
    // features) shows in the last digits of quotients, remainders, products and elementary functions
    let long_lit = |rng: &mut Rng, ev: Ev| -> String {
        let digits = 1 + rng.below(if ev == Ev::I64 { 17 } else { 26 });
        let mut t = String::new();
        for k in 0..digits {
            t.push(char::from(b'0' + if k == 0 { 1 + rng.below(9) } else { rng.below(10) } as u8));
        }
        if ev != Ev::I64 && rng.chance(3, 4) {
            let at = rng.below(t.len() + 1);
            t.insert(at, '.');
            if at == 0 {
                t.insert(0, '0');
            }
            if t.ends_with('.') {
                t.push('0');
            }
        }
        t
    };
    let n_long = n / 4;
    for k in 0..n_long {
        let ev = crate::val::ALL_EV[k % 5];
        let (a, b, c) = (long_lit(&mut rng, ev), long_lit(&mut rng, ev), long_lit(&mut rng, ev));
        let mut forms = vec![format!("{}/{}", a, b), format!("{}*{}", a, b), format!("{}-{}", a, b), format!("{}/{}*{}", a, b, c), format!("{}/{}/{}", a, b, c), format!("avg({},{},{})", a, b, c), format!("sqrt({})", a), format!("ln({})", a), format!("{}^0.5", a)];
        if has_fact_mod(ev) {
            forms.extend([format!("{}%{}", a, b), format!("{}/{}%{}", a, b, c), format!("(0-{})%{}", a, b)]);
        }
        if ev == Ev::Cpx {
            forms.extend([format!("({}+{}i)/({}-{}i)", a, b, c, a), format!("({}+{}i)^{}i", a, b, c)]);
        }
        let f = forms[rng.below(forms.len())].clone();
        push(ev, &f, ph_pool(ev)[0], &mut lines);
    }
    // random part
    let fixed = lines.len();
    while lines.len() < fixed + n {
        for ev in crate::val::ALL_EV {
            let pool = ph_pool(ev);
            let leaf = hostile_leaf(ev);
            let cfg = GenCfg::full(ev, &leaf);
            let d = 1 + rng.below(5);
            let (_, s) = gen_expr(&cfg, &mut rng, d);
            let s = if rng.chance(1, 4) { mutate(&s, &mut rng, ev) } else { s };
            push(ev, &s, *rng.pick(&pool), &mut lines);
        }
    }
    match std::fs::write(&path, lines.join("\n") + "\n") {
        Ok(()) => 0,
        Err(_) => 2,
    }
}
