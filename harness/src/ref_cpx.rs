//! Reference evaluation for eval_complex: own pair arithmetic; principal-branch definitions built
//! from real exp / ln / atan2 / sqrt / trig (not from num-complex). Tolerance-checked functions are
//! judged only on generic operands away from axes, cuts and branch points.

use crate::ref_f64::{self as rf, libm};
use crate::syntax::{Ast, Br, Func, Op};
use crate::val::{Outcome, Val};

pub type C = (f64, f64);

#[derive(Clone, Copy, Debug, PartialEq)]
pub enum QC {
    /// numeric equality of both parts (sign of zero free)
    NumEq,
    /// |got - want| <= tol * |want|
    Rel(f64),
    Unspec,
}

#[derive(Clone, Copy, Debug)]
pub struct RC {
    pub v: C,
    pub q: QC,
}

pub fn cabs(z: C) -> f64 {
    z.0.hypot(z.1)
}
pub fn cadd(a: C, b: C) -> C {
    (a.0 + b.0, a.1 + b.1)
}
pub fn csub(a: C, b: C) -> C {
    (a.0 - b.0, a.1 - b.1)
}
pub fn cmul(a: C, b: C) -> C {
    (a.0 * b.0 - a.1 * b.1, a.0 * b.1 + a.1 * b.0)
}
pub fn cneg(a: C) -> C {
    (-a.0, -a.1)
}
pub fn cdiv(a: C, b: C) -> C {
    // Smith's algorithm
    if b.0.abs() >= b.1.abs() {
        let r = b.1 / b.0;
        let d = b.0 + b.1 * r;
        ((a.0 + a.1 * r) / d, (a.1 - a.0 * r) / d)
    } else {
        let r = b.0 / b.1;
        let d = b.0 * r + b.1;
        ((a.0 * r + a.1) / d, (a.1 * r - a.0) / d)
    }
}
pub fn cexp(z: C) -> C {
    let m = unsafe { libm::exp(z.0) };
    unsafe { (m * libm::cos(z.1), m * libm::sin(z.1)) }
}
pub fn cln(z: C) -> C {
    unsafe { (libm::log(cabs(z)), libm::atan2(z.1, z.0)) }
}
pub fn csqrt(z: C) -> C {
    let m = cabs(z);
    if m == 0.0 {
        return (0.0, 0.0);
    }
    // stable principal square root
    let (x, y) = z;
    if x >= 0.0 {
        let t = ((m + x) / 2.0).sqrt();
        (t, y / (2.0 * t))
    } else {
        let t = ((m - x) / 2.0).sqrt();
        (y.abs() / (2.0 * t), if y < 0.0 { -t } else { t })
    }
}
pub fn cpow(a: C, b: C) -> C {
    cexp(cmul(b, cln(a)))
}
pub fn csin(z: C) -> C {
    unsafe { (libm::sin(z.0) * libm::cosh(z.1), libm::cos(z.0) * libm::sinh(z.1)) }
}
pub fn ccos(z: C) -> C {
    unsafe { (libm::cos(z.0) * libm::cosh(z.1), -libm::sin(z.0) * libm::sinh(z.1)) }
}
pub fn csinh(z: C) -> C {
    unsafe { (libm::sinh(z.0) * libm::cos(z.1), libm::cosh(z.0) * libm::sin(z.1)) }
}
pub fn ccosh(z: C) -> C {
    unsafe { (libm::cosh(z.0) * libm::cos(z.1), libm::sinh(z.0) * libm::sin(z.1)) }
}
const I: C = (0.0, 1.0);
const ONE: C = (1.0, 0.0);

/// asinh z = ln(z + sqrt(z^2+1)), using oddness to avoid cancellation for Re z < 0
pub fn casinh(z: C) -> C {
    if z.0 < 0.0 {
        return cneg(casinh(cneg(z)));
    }
    cln(cadd(z, csqrt(cadd(cmul(z, z), ONE))))
}
/// asin z = -i asinh(iz)
pub fn casin(z: C) -> C {
    let w = casinh(cmul(I, z));
    (w.1, -w.0)
}
/// acos z = pi/2 - asin z
pub fn cacos(z: C) -> C {
    let s = casin(z);
    (std::f64::consts::FRAC_PI_2 - s.0, -s.1)
}
/// atanh z = (ln(1+z) - ln(1-z)) / 2
pub fn catanh(z: C) -> C {
    let d = csub(cln(cadd(ONE, z)), cln(csub(ONE, z)));
    (d.0 / 2.0, d.1 / 2.0)
}
/// atan z = -i atanh(iz)
pub fn catan(z: C) -> C {
    let w = catanh(cmul(I, z));
    (w.1, -w.0)
}
/// acosh z = ln(z + sqrt(z+1) sqrt(z-1))
pub fn cacosh(z: C) -> C {
    // 2 ln( sqrt((z+1)/2) + sqrt((z-1)/2) ) is free of cancellation
    let a = csqrt(((z.0 + 1.0) / 2.0, z.1 / 2.0));
    let b = csqrt(((z.0 - 1.0) / 2.0, z.1 / 2.0));
    let l = cln(cadd(a, b));
    (2.0 * l.0, 2.0 * l.1)
}

fn finite(z: C) -> bool {
    z.0.is_finite() && z.1.is_finite()
}

/// generic operand: well away from both axes, moderate modulus, away from +-1 and +-i
pub fn generic(z: C) -> bool {
    let m = cabs(z);
    finite(z)
        && m >= 1e-3
        && m <= 1e3
        && z.0.abs() >= 1e-3 * m
        && z.1.abs() >= 1e-3 * m
        && cabs(csub(z, ONE)) >= 1e-2
        && cabs(cadd(z, ONE)) >= 1e-2
        && cabs(csub(z, I)) >= 1e-2
        && cabs(cadd(z, I)) >= 1e-2
}

fn rel9(v: C) -> RC {
    let m = cabs(v);
    if finite(v) && m > 1e-200 && m < 1e200 {
        RC { v, q: QC::Rel(1e-9) }
    } else {
        RC { v, q: QC::Unspec }
    }
}
fn unspec() -> RC {
    RC { v: (f64::NAN, f64::NAN), q: QC::Unspec }
}

/// moderate modulus
fn moderate(z: C) -> bool {
    let m = cabs(z);
    finite(z) && m >= 1e-3 && m <= 1e3
}
/// away from the cut of ln / sqrt / powers (the negative real axis) and from zero
pub fn off_negative_axis(z: C) -> bool {
    moderate(z) && !(z.0 < 0.0 && z.1.abs() < 1e-3 * cabs(z))
}
/// away from the cuts on the real axis beyond +-1 (asin, acos, atanh) and from the branch points
fn off_real_cuts(z: C) -> bool {
    moderate(z) && (z.1.abs() >= 1e-3 * cabs(z) || z.0.abs() <= 1.0 - 1e-2) && cabs(csub(z, ONE)) >= 1e-2 && cabs(cadd(z, ONE)) >= 1e-2
}
/// away from the cuts on the imaginary axis beyond +-i (atan, asinh) and from the branch points
fn off_imag_cuts(z: C) -> bool {
    moderate(z) && (z.0.abs() >= 1e-3 * cabs(z) || z.1.abs() <= 1.0 - 1e-2) && cabs(csub(z, I)) >= 1e-2 && cabs(cadd(z, I)) >= 1e-2
}

/// Depth-1 reference of a function on exactly known operands (real or complex, each judged against
/// the cuts and singular points of the function at hand).
pub fn func(f: Func, a: &[C]) -> RC {
    use Func::*;
    let z = a[0];
    if f == Abs {
        return if finite(z) && cabs(z).is_finite() { RC { v: (cabs(z), 0.0), q: QC::Rel(1e-12) } } else { unspec() };
    }
    if !a.iter().all(|x| finite(*x)) {
        return unspec();
    }
    let small = z.0.abs() <= 30.0 && z.1.abs() <= 30.0;
    match f {
        Sqrt if off_negative_axis(z) => rel9(csqrt(z)),
        Exp if small => rel9(cexp(z)),
        // a large phase: e^(x+iy) = e^x (cos y, sin y) with the C library's sin and cos, which reduce
        // their argument exactly - the operand is known exactly here, so the value is well defined
        Exp if z.0.abs() <= 30.0 && z.1.abs() <= 1e15 => rel9(cexp(z)),
        Exp2 if small => rel9(cexp((z.0 * std::f64::consts::LN_2, z.1 * std::f64::consts::LN_2))),
        Ln if off_negative_axis(z) => rel9(cln(z)),
        Lb if off_negative_axis(z) => {
            let l = cln(z);
            rel9((l.0 / std::f64::consts::LN_2, l.1 / std::f64::consts::LN_2))
        }
        Log if off_negative_axis(z) && off_negative_axis(a[1]) => {
            let lb = cln(a[1]);
            let lx = cln(z);
            if cabs(lb) < 1e-2 || cabs(lx) < 1e-2 {
                return unspec();
            }
            rel9(cdiv(lx, lb))
        }
        Pow => pow_ref(a[0], a[1]),
        // root(n, x) = x^(1/n)
        Root if cabs(a[0]) >= 1e-3 => pow_ref(a[1], cdiv(ONE, a[0])),
        Sin if small => rel9(csin(z)),
        Cos if small => rel9(ccos(z)),
        // many periods from the origin along the real axis (same argument as for exp)
        Sin if z.1.abs() <= 30.0 && z.0.abs() <= 1e15 && cabs(csin(z)) >= 1e-3 => rel9(csin(z)),
        Cos if z.1.abs() <= 30.0 && z.0.abs() <= 1e15 && cabs(ccos(z)) >= 1e-3 => rel9(ccos(z)),
        // far from the real axis tan is +-i to far better than the tolerance (and cos, sin overflow long before)
        Tan if z.0.abs() <= 30.0 && z.1.abs() > 20.0 && z.1.abs() <= 1000.0 => rel9((0.0, z.1.signum())),
        Tanh if z.1.abs() <= 30.0 && z.0.abs() > 20.0 && z.0.abs() <= 1000.0 => rel9((z.0.signum(), 0.0)),
        Tan if small => {
            let c = ccos(z);
            if cabs(c) < 1e-3 {
                return unspec();
            }
            rel9(cdiv(csin(z), c))
        }
        Sinh if small => rel9(csinh(z)),
        Cosh if small => rel9(ccosh(z)),
        Sinh if z.0.abs() <= 30.0 && z.1.abs() <= 1e15 && cabs(csinh(z)) >= 1e-3 => rel9(csinh(z)),
        Cosh if z.0.abs() <= 30.0 && z.1.abs() <= 1e15 && cabs(ccosh(z)) >= 1e-3 => rel9(ccosh(z)),
        Tanh if small => {
            let c = ccosh(z);
            if cabs(c) < 1e-3 {
                return unspec();
            }
            rel9(cdiv(csinh(z), c))
        }
        Asin if off_real_cuts(z) => rel9(casin(z)),
        Acos if off_real_cuts(z) => rel9(cacos(z)),
        Atanh if off_real_cuts(z) => rel9(catanh(z)),
        Atan if off_imag_cuts(z) => rel9(catan(z)),
        Asinh if off_imag_cuts(z) => rel9(casinh(z)),
        // acosh: cut on the real axis below 1
        Acosh if moderate(z) && (z.1.abs() >= 1e-3 * cabs(z) || z.0 >= 1.0 + 1e-2) && cabs(csub(z, ONE)) >= 1e-2 && cabs(cadd(z, ONE)) >= 1e-2 => rel9(cacosh(z)),
        _ => unspec(),
    }
}

pub fn pow_ref(a: C, b: C) -> RC {
    if !off_negative_axis(a) || !finite(b) || cabs(b) > 50.0 {
        return unspec();
    }
    let e = cmul(b, cln(a));
    // conditioning: the relative error of exp(e) is about |e| * eps
    if cabs(e) > 200.0 {
        return unspec();
    }
    rel9(cexp(e))
}

fn known(r: &RC) -> Option<C> {
    match r.q {
        QC::NumEq => Some(r.v),
        _ => None,
    }
}

/// value and relative tolerance of an operand that is exactly known or known within a tolerance
fn approx(r: &RC) -> Option<(C, f64)> {
    match r.q {
        QC::NumEq => Some((r.v, 0.0)),
        QC::Rel(t) => Some((r.v, t)),
        QC::Unspec => None,
    }
}
/// at least one operand is only known within a tolerance (and both are known at all)
fn derived(a: &RC, b: &RC) -> bool {
    approx(a).is_some() && approx(b).is_some() && (known(a).is_none() || known(b).is_none())
}
/// An exact operation (+ - * and /) over operands that are themselves within a tolerance: the bound
/// that follows from the operands' bounds (normwise), no verdict under cancellation or extreme sizes.
fn combine(op: Op, a: &RC, b: &RC) -> RC {
    let ((x, tx), (y, ty)) = (approx(a).unwrap(), approx(b).unwrap());
    let sized = |z: C| finite(z) && cabs(z) > 1e-100 && cabs(z) < 1e100;
    if !sized(x) || !sized(y) {
        return unspec();
    }
    let (v, t) = match op {
        Op::Add | Op::Sub => {
            let v = if op == Op::Add { cadd(x, y) } else { csub(x, y) };
            if cabs(v) < 1e-3 * (cabs(x) + cabs(y)) {
                return unspec();
            }
            (v, (tx * cabs(x) + ty * cabs(y)) / cabs(v) + 1e-15)
        }
        Op::Mul => (cmul(x, y), tx + ty + tx * ty + 1e-15),
        Op::Div => (cdiv(x, y), (tx + ty) * 1.01 + 1e-12),
        _ => return unspec(),
    };
    if !sized(v) || t > 1e-6 {
        return unspec();
    }
    RC { v, q: QC::Rel(t) }
}

pub fn lit(t: &str) -> f64 {
    rf::parse_lit(t)
}

pub fn eval(ast: &Ast, ph: C) -> RC {
    let ex = |v: C| RC { v, q: QC::NumEq };
    match ast {
        Ast::Lit(t) => ex((lit(t), 0.0)),
        Ast::ImLit(t) => ex((0.0, if t.is_empty() { 1.0 } else { lit(t) })),
        Ast::Pi(_) => ex((rf::PI, 0.0)),
        Ast::E => ex((rf::E, 0.0)),
        Ast::Ans => ex(ph),
        Ast::Group(Br::Round, a) | Ast::Pos(a) => eval(a, ph),
        Ast::Neg(a) => {
            let r = eval(a, ph);
            match (known(&r), approx(&r)) {
                (Some(v), _) => ex(cneg(v)),
                (None, Some((v, t))) => RC { v: cneg(v), q: QC::Rel(t) },
                _ => unspec(),
            }
        }
        Ast::Bin(op, a, b) => {
            // each operand is evaluated once (long chains nest hundreds of levels deep)
            let (ra, rb) = (eval(a, ph), eval(b, ph));
            if matches!(op, Op::Add | Op::Sub | Op::Mul | Op::Div) && derived(&ra, &rb) {
                return combine(*op, &ra, &rb);
            }
            match (known(&ra), known(&rb)) {
                (Some(x), Some(y)) => match op {
                    Op::Add => ex(cadd(x, y)),
                    Op::Sub => ex(csub(x, y)),
                    Op::Mul => ex(cmul(x, y)),
                    Op::Div => {
                        let q = cdiv(x, y);
                        if finite(x) && finite(y) && cabs(y) > 1e-300 && finite(q) && cabs(x) < 1e150 && cabs(y) < 1e150 && cabs(x) > 1e-150 && cabs(y) > 1e-150 {
                            RC { v: q, q: QC::Rel(1e-12) }
                        } else {
                            unspec()
                        }
                    }
                    Op::Pow => pow_ref(x, y),
                    _ => unspec(),
                },
                _ => unspec(),
            }
        }
        Ast::IMul(a, b) => {
            let (ra, rb) = (eval(a, ph), eval(b, ph));
            if derived(&ra, &rb) {
                return combine(Op::Mul, &ra, &rb);
            }
            match (known(&ra), known(&rb)) {
                (Some(x), Some(y)) => ex(cmul(x, y)),
                _ => unspec(),
            }
        }
        Ast::Sup(a, d) => match known(&eval(a, ph)) {
            Some(x) => pow_ref(x, (lit(d), 0.0)),
            None => unspec(),
        },
        Ast::Deg(a) => match known(&eval(a, ph)) {
            Some(x) if finite(x) => rel9((x.0 * rf::PI / 180.0, x.1 * rf::PI / 180.0)),
            _ => unspec(),
        },
        Ast::Rad(a) => match known(&eval(a, ph)) {
            Some(x) if finite(x) => rel9((x.0 * 180.0 / rf::PI, x.1 * 180.0 / rf::PI)),
            _ => unspec(),
        },
        Ast::Call(f, _, args) => {
            let ks: Vec<Option<C>> = args.iter().map(|a| known(&eval(a, ph))).collect();
            if ks.iter().all(|k| k.is_some()) {
                let xs: Vec<C> = ks.into_iter().map(|k| k.unwrap()).collect();
                func(*f, &xs)
            } else {
                unspec()
            }
        }
        _ => unspec(),
    }
}

pub fn judge(r: &RC, out: &Outcome) -> Option<(&'static str, String)> {
    let g = match out {
        Outcome::Ok(Val::C(a, b)) => (*a, *b),
        Outcome::Ok(v) => return Some(("wrong-type", v.show())),
        Outcome::Err(m) => {
            return if r.q == QC::Unspec { None } else { Some(("err-where-value", format!("expected {:?}, got Err({})", r.v, m))) };
        }
        _ => return None,
    };
    match r.q {
        QC::Unspec => None,
        QC::NumEq => {
            let eq = |x: f64, y: f64| (x.is_nan() && y.is_nan()) || x == y;
            if eq(g.0, r.v.0) && eq(g.1, r.v.1) {
                None
            } else {
                Some(("wrong-value", format!("expected {:?}, got {:?}", r.v, g)))
            }
        }
        QC::Rel(t) => {
            let d = cabs(csub(g, r.v));
            if d <= t * cabs(r.v) + 1e-300 {
                None
            } else {
                Some(("outside-tolerance", format!("expected {:?} within {:e}, got {:?} (rel err {:e})", r.v, t, g, d / cabs(r.v))))
            }
        }
    }
}

/// Loose evaluation used only to decide whether an expression lies in the conservative core where
/// every operation is defined (finite, moderate magnitudes, non-zero divisors and log arguments).
pub fn core_value(ast: &Ast, ph: C) -> Option<C> {
    let ok = |v: C| -> Option<C> {
        let m = cabs(v);
        if finite(v) && m <= 1e100 && (m == 0.0 || m >= 1e-100) {
            Some(v)
        } else {
            None
        }
    };
    let nz = |v: C| cabs(v) >= 1e-100;
    match ast {
        Ast::Lit(t) => ok((lit(t), 0.0)),
        Ast::ImLit(t) => ok((0.0, if t.is_empty() { 1.0 } else { lit(t) })),
        Ast::Pi(_) => Some((rf::PI, 0.0)),
        Ast::E => Some((rf::E, 0.0)),
        Ast::Ans => ok(ph),
        Ast::Group(Br::Round, a) | Ast::Pos(a) => core_value(a, ph),
        Ast::Neg(a) => core_value(a, ph).map(cneg),
        Ast::Deg(a) | Ast::Rad(a) => core_value(a, ph),
        Ast::IMul(a, b) => ok(cmul(core_value(a, ph)?, core_value(b, ph)?)),
        Ast::Bin(op, a, b) => {
            let (x, y) = (core_value(a, ph)?, core_value(b, ph)?);
            match op {
                Op::Add => ok(cadd(x, y)),
                Op::Sub => ok(csub(x, y)),
                Op::Mul => ok(cmul(x, y)),
                Op::Div if nz(y) => ok(cdiv(x, y)),
                Op::Pow if nz(x) && cabs(cmul(y, cln(x))) <= 200.0 => ok(cpow(x, y)),
                _ => None,
            }
        }
        Ast::Sup(a, d) => {
            let x = core_value(a, ph)?;
            let y = (lit(d), 0.0);
            if nz(x) && cabs(cmul(y, cln(x))) <= 200.0 {
                ok(cpow(x, y))
            } else {
                None
            }
        }
        Ast::Call(f, _, args) => {
            let mut v = vec![];
            for a in args {
                v.push(core_value(a, ph)?);
            }
            let z = *v.first()?;
            let small = z.0.abs() <= 100.0 && z.1.abs() <= 100.0;
            use Func::*;
            match f {
                Abs => ok((cabs(z), 0.0)),
                Sqrt => ok(csqrt(z)),
                Exp | Exp2 if small => ok(cexp(z)),
                Ln | Lb if nz(z) => ok(cln(z)),
                Log if nz(z) && nz(v[1]) && cabs(cln(v[1])) >= 1e-6 => ok(cdiv(cln(z), cln(v[1]))),
                Pow if nz(z) && cabs(cmul(v[1], cln(z))) <= 200.0 => ok(cpow(z, v[1])),
                Root if nz(z) && nz(v[1]) && cabs(cmul(cdiv(ONE, z), cln(v[1]))) <= 200.0 => ok(cpow(v[1], cdiv(ONE, z))),
                Sin if small => ok(csin(z)),
                Cos if small => ok(ccos(z)),
                Sinh if small => ok(csinh(z)),
                Cosh if small => ok(ccosh(z)),
                Tan if small && cabs(ccos(z)) >= 1e-6 => ok(cdiv(csin(z), ccos(z))),
                Tanh if small && cabs(ccosh(z)) >= 1e-6 => ok(cdiv(csinh(z), ccosh(z))),
                Asin => ok(casin(z)),
                Acos => ok(cacos(z)),
                Asinh => ok(casinh(z)),
                Acosh => ok(cacosh(z)),
                Atan if cabs(csub(z, I)) >= 1e-6 && cabs(cadd(z, I)) >= 1e-6 => ok(catan(z)),
                Atanh if cabs(csub(z, ONE)) >= 1e-6 && cabs(cadd(z, ONE)) >= 1e-6 => ok(catanh(z)),
                _ => None,
            }
        }
        _ => None,
    }
}
