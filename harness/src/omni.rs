//! Entry point of the coverage-guided workload (libFuzzer target `omni` in harness/fuzz): fuzzer
//! bytes are decoded into one call (evaluator, placeholder, input text, auxiliary choice), turned
//! into the cases of one property and handed to that property's ordinary monitor. The fuzzer only
//! chooses inputs; verdicts come from the same `judge` functions as everywhere else, and every
//! candidate is re-judged by the regular `scv` binaries before it is reported.

use crate::core::{Case, Stats, Verdict};
use crate::gen::ph_pool;
use crate::monitors::{self, c12, c13, c14};
use crate::prng::Rng;
use crate::syntax::{parse, Ast, Br};
use crate::val::{DecV, Ev, Val, ALL_EV};

pub struct Input {
    pub ev: Ev,
    pub ph: Val,
    pub aux: u64,
    /// the eight raw placeholder bytes, whatever the selector says
    pub raw: u64,
    pub expr: String,
}

/// properties that have a fuzz stage
pub const PROPS: [&str; 15] = ["C01", "C02", "C03", "C04", "C05", "C06", "C07", "C08", "C09", "C10", "C12", "C13", "C14", "C18", "C20"];

fn rd(d: &[u8], at: usize, n: usize) -> u128 {
    let mut v = 0u128;
    for i in 0..n {
        v |= (*d.get(at + i).unwrap_or(&0) as u128) << (8 * i);
    }
    v
}

/// layout: [evaluator][placeholder selector][aux][16 bytes of raw placeholder material][text…]
pub const HEADER: usize = 19;

pub fn decode(data: &[u8]) -> Option<Input> {
    if data.len() < HEADER {
        return None;
    }
    let ev = ALL_EV[(data[0] % 5) as usize];
    let sel = data[1];
    let aux = data[2] as u64;
    let ph = if sel < 192 {
        let pool = ph_pool(ev);
        pool[(sel as usize + 192 * (data[3] as usize % 4)) % pool.len()]
    } else {
        match ev {
            Ev::F64 => Val::F(f64::from_bits(rd(data, 3, 8) as u64)),
            Ev::I64 => Val::I(rd(data, 3, 8) as u64 as i64),
            Ev::Dec => Val::D(DecV { neg: sel & 1 == 1, mant: rd(data, 3, 12), scale: (data[15] % 29) as u32 }),
            Ev::Cpx => Val::C(f64::from_bits(rd(data, 3, 8) as u64), f64::from_bits(rd(data, 11, 8) as u64)),
            Ev::Num => {
                if sel & 1 == 1 {
                    Val::NF(f64::from_bits(rd(data, 3, 8) as u64))
                } else {
                    Val::NI(rd(data, 3, 8) as u64 as i64)
                }
            }
        }
    };
    let text = String::from_utf8_lossy(&data[HEADER..]);
    let expr: String = text.chars().take(256).collect();
    Some(Input { ev, ph, aux, raw: rd(data, 3, 8) as u64, expr })
}

/// inverse of `decode` for seed corpora (pool placeholders only)
pub fn encode(ev: Ev, pool_index: usize, aux: u8, expr: &str) -> Vec<u8> {
    let mut v = vec![0u8; HEADER];
    v[0] = ev.idx() as u8;
    v[1] = (pool_index % 192) as u8;
    v[3] = (pool_index / 192 % 4) as u8;
    v[2] = aux;
    v.extend_from_slice(expr.as_bytes());
    v
}

/// Does the tree use only the operations the statement of `prop` lists? (The per-evaluator value
/// properties C05, C06, C07, C09 each name their operations; anything else - other functions,
/// aggregates, degrees - belongs to C10 / C11, which have stages of their own.)
fn in_scope(prop: &str, a: &Ast) -> bool {
    use crate::syntax::Func as F;
    let funcs: &[F] = match prop {
        "C05" => &[F::Abs, F::Floor, F::Ceil, F::Trunc, F::Round, F::Sqrt, F::Mod, F::Pow],
        "C06" => &[F::Abs, F::Sgn, F::Mod, F::Pow],
        "C07" => &[F::Mod],
        "C09" => &[F::Abs, F::Sgn, F::Floor, F::Ceil, F::Trunc, F::Round, F::Mod, F::Pow],
        _ => return true,
    };
    let here = match a {
        Ast::Call(f, _, _) => funcs.contains(f),
        Ast::Fact(_) => matches!(prop, "C06" | "C09"),
        Ast::Deg(_) | Ast::Rad(_) => false,
        Ast::Bin(crate::syntax::Op::Pow, _, _) | Ast::Sup(..) => prop != "C07",
        Ast::Group(Br::Floor, _) | Ast::Group(Br::Ceil, _) => prop != "C07",
        Ast::Pi(_) | Ast::E => prop == "C05" || prop == "C09",
        _ => true,
    };
    here && a.children().iter().all(|c| in_scope(prop, c))
}

fn nodes(a: &Ast) -> usize {
    1 + a.children().iter().map(|c| nodes(c)).sum::<usize>()
}

/// The cases of property `prop` that this input gives rise to.
pub fn cases(prop: &str, i: &Input) -> Vec<Case> {
    let (ev, s, ph) = (i.ev, i.expr.as_str(), i.ph);
    let one = |kind: &str| vec![Case::new(ev, kind, s, ph)];
    match prop {
        "C01" | "C02" | "C04" | "C10" => one("fuzz"),
        // Number::from on the raw bits the fuzzer supplies: comparisons inside the conversion guide it
        // (value profile) towards sparse equalities between parts of the double
        "C18" => vec![Case::new(Ev::Num, "from-f64/fuzz", "", Val::NF(f64::from_bits(i.raw))), Case::new(Ev::Num, "from-i64", "", Val::NI(i.raw as i64))],
        "C03" => one("w4"),
        "C05" | "C06" | "C07" | "C09" => {
            let want = match prop {
                "C05" => Ev::F64,
                "C06" => Ev::I64,
                "C07" => Ev::Dec,
                _ => Ev::Num,
            };
            match parse(ev, s) {
                Ok(p) if ev == want && !p.unspec && in_scope(prop, &p.ast) => one("fuzz"),
                _ => vec![],
            }
        }
        "C08" if ev == Ev::Cpx => one("fuzz"),
        "C12" => match parse(ev, s) {
            Ok(p) if !p.unspec && p.ast.has_imul() => {
                let k = c12::count_imul(&p.ast);
                let only = if i.aux % 2 == 0 { None } else { Some((i.aux as usize / 2) % k) };
                let ex = c12::explicit(&p.ast, only, &mut 0).render();
                vec![Case::pair(ev, "explicit", s, ph, &ex, ph)]
            }
            Ok(_) => vec![],
            // rejected by the grammar: whatever the reason, Ok is not an option (forbidden juxtapositions included)
            Err(_) => vec![Case::new(ev, "forbidden", s, ph)],
        },
        "C13" => {
            let ast = match parse(ev, s) {
                Ok(p) if !p.unspec => Some(p.ast),
                _ => None,
            };
            let mut rng = Rng::new(i.aux.wrapping_mul(0x9E37_79B9_7F4A_7C15) ^ crate::prng::fnv(s.as_bytes()));
            c13::variants(ev, s, ast.as_ref(), &mut rng).into_iter().filter(|(_, t)| t != s).map(|(kind, t)| Case::pair(ev, kind, s, ph, &t, ph)).collect()
        }
        "C14" => {
            if !s.contains('@') {
                return vec![];
            }
            // well-formed inputs only: in a malformed one, writing a bracketed literal for `@` changes
            // what may be juxtaposed (`@@` is rejected, `(2)(2)` is a product)
            match parse(ev, s) {
                Ok(p) if !p.unspec => {}
                _ => return vec![],
            }
            let mut v = vec![];
            if s == "@" {
                v.push(Case::new(ev, "alone", s, ph));
            }
            match c14::value_expr(&ph) {
                Some(lit) => {
                    let t = s.replace('@', &lit);
                    if t.chars().count() <= 2000 && matches!(parse(ev, &t), Ok(p) if !p.unspec) {
                        v.push(Case::pair(ev, "substitution", s, ph, &t, Val::zero(ev)));
                    }
                }
                None => v.push(Case::new(ev, "bound", s, ph)),
            }
            v
        }
        "C20" => {
            // the input is C[(E)] with E the aux-th subtree (pre-order); the hole gets `@`
            if s.contains('@') {
                return vec![];
            }
            let p = match parse(ev, s) {
                Ok(p) if !p.unspec => p,
                _ => return vec![],
            };
            let n = nodes(&p.ast);
            let k = (i.aux as usize) % n;
            let any = |a: &Ast| Some(a.clone());
            let mut picked: Option<Ast> = None;
            {
                // find the k-th node
                fn nth<'a>(a: &'a Ast, k: usize, c: &mut usize) -> Option<&'a Ast> {
                    if *c == k {
                        return Some(a);
                    }
                    *c += 1;
                    for ch in a.children() {
                        if let Some(x) = nth(ch, k, c) {
                            return Some(x);
                        }
                    }
                    None
                }
                if let Some(x) = nth(&p.ast, k, &mut 0) {
                    picked = Some(x.clone());
                }
            }
            let _ = any;
            let e_ast = match picked {
                Some(a) => a,
                None => return vec![],
            };
            let e_inner = match &e_ast {
                Ast::Group(Br::Round, x) => (**x).clone(),
                x => x.clone(),
            };
            let with_hole = c13::map_nth(&p.ast, k, &mut 0, &|_a: &Ast| Some(Ast::Ans));
            let with_e = c13::map_nth(&p.ast, k, &mut 0, &|_a: &Ast| Some(Ast::Group(Br::Round, Box::new(e_inner.clone()))));
            let (s_hole, s_e, e) = (with_hole.render(), with_e.render(), e_inner.render());
            match (parse(ev, &s_hole), parse(ev, &s_e), parse(ev, &e)) {
                (Ok(a), Ok(b), Ok(c)) if !a.unspec && !b.unspec && !c.unspec && a.ast == with_hole && b.ast == with_e => {}
                _ => return vec![],
            }
            vec![Case { ev, kind: "substitute".into(), exprs: vec![s_e, s_hole, e], phs: vec![Val::zero(ev)], extra: String::new() }]
        }
        _ => vec![],
    }
}

/// Judge every case of `prop` for this input; returns the cases that violate it.
pub fn judge(prop: &str, i: &Input, st: &mut Stats, tally: &mut [u64; 3]) -> Vec<(Case, crate::core::Violation)> {
    let mon = match monitors::find(prop) {
        Some(m) => m,
        None => return vec![],
    };
    let mut out = vec![];
    for c in cases(prop, i) {
        match mon.judge(&c, st) {
            Verdict::Pass { .. } => tally[0] += 1,
            Verdict::Skip(_) => tally[1] += 1,
            Verdict::Viol(v) => {
                tally[2] += 1;
                out.push((c, v));
            }
        }
    }
    out
}
