//! Evaluator ids, canonical value images and call outcomes (the event model of the recording boundary).

#[derive(Clone, Copy, PartialEq, Eq, Debug, Hash, PartialOrd, Ord)]
pub enum Ev {
    F64,
    I64,
    Dec,
    Cpx,
    Num,
}

pub const ALL_EV: [Ev; 5] = [Ev::F64, Ev::I64, Ev::Dec, Ev::Cpx, Ev::Num];

impl Ev {
    pub fn name(self) -> &'static str {
        match self {
            Ev::F64 => "f64",
            Ev::I64 => "i64",
            Ev::Dec => "decimal",
            Ev::Cpx => "complex",
            Ev::Num => "number",
        }
    }
    pub fn parse(s: &str) -> Option<Ev> {
        ALL_EV.iter().copied().find(|e| e.name() == s)
    }
    pub fn idx(self) -> usize {
        self as usize
    }
}

/// Image of a `rust_decimal::Decimal`: sign, 96-bit coefficient, scale.
#[derive(Clone, Copy, PartialEq, Eq, Debug, Hash)]
pub struct DecV {
    pub neg: bool,
    pub mant: u128,
    pub scale: u32,
}

#[derive(Clone, Copy, Debug)]
pub enum Val {
    F(f64),
    I(i64),
    D(DecV),
    C(f64, f64),
    NF(f64),
    NI(i64),
}

fn fbits_eq(a: f64, b: f64) -> bool {
    (a.is_nan() && b.is_nan()) || a.to_bits() == b.to_bits()
}

impl Val {
    /// Bit identity with all NaNs identified; Decimal compares sign, coefficient and scale.
    pub fn same_bits(&self, o: &Val) -> bool {
        match (self, o) {
            (Val::F(a), Val::F(b)) => fbits_eq(*a, *b),
            (Val::I(a), Val::I(b)) => a == b,
            (Val::D(a), Val::D(b)) => a == b,
            (Val::C(a, b), Val::C(c, d)) => fbits_eq(*a, *c) && fbits_eq(*b, *d),
            (Val::NF(a), Val::NF(b)) => fbits_eq(*a, *b),
            (Val::NI(a), Val::NI(b)) => a == b,
            _ => false,
        }
    }
    pub fn ev(&self) -> Ev {
        match self {
            Val::F(_) => Ev::F64,
            Val::I(_) => Ev::I64,
            Val::D(_) => Ev::Dec,
            Val::C(..) => Ev::Cpx,
            Val::NF(_) | Val::NI(_) => Ev::Num,
        }
    }
    pub fn is_finite(&self) -> bool {
        match self {
            Val::F(a) | Val::NF(a) => a.is_finite(),
            Val::C(a, b) => a.is_finite() && b.is_finite(),
            _ => true,
        }
    }
    /// Canonical textual image (lossless), used in replay files and logs.
    pub fn enc(&self) -> String {
        match self {
            Val::F(a) => format!("f:{:016x}", a.to_bits()),
            Val::I(a) => format!("i:{}", a),
            Val::D(d) => format!("d:{}{}e-{}", if d.neg { "-" } else { "" }, d.mant, d.scale),
            Val::C(a, b) => format!("c:{:016x},{:016x}", a.to_bits(), b.to_bits()),
            Val::NF(a) => format!("nf:{:016x}", a.to_bits()),
            Val::NI(a) => format!("ni:{}", a),
        }
    }
    /// Human readable form for reports.
    pub fn show(&self) -> String {
        match self {
            Val::F(a) => format!("{:?}", a),
            Val::I(a) => format!("{}", a),
            Val::D(d) => format!("{}{}e-{}", if d.neg { "-" } else { "" }, d.mant, d.scale),
            Val::C(a, b) => format!("({:?},{:?}i)", a, b),
            Val::NF(a) => format!("Float({:?})", a),
            Val::NI(a) => format!("Integer({})", a),
        }
    }
    pub fn dec(s: &str) -> Option<Val> {
        let (k, r) = s.split_once(':')?;
        match k {
            "f" => Some(Val::F(f64::from_bits(u64::from_str_radix(r, 16).ok()?))),
            "nf" => Some(Val::NF(f64::from_bits(u64::from_str_radix(r, 16).ok()?))),
            "i" => Some(Val::I(r.parse().ok()?)),
            "ni" => Some(Val::NI(r.parse().ok()?)),
            "c" => {
                let (a, b) = r.split_once(',')?;
                Some(Val::C(
                    f64::from_bits(u64::from_str_radix(a, 16).ok()?),
                    f64::from_bits(u64::from_str_radix(b, 16).ok()?),
                ))
            }
            "d" => {
                let (m, sc) = r.split_once("e-")?;
                let (neg, m) = match m.strip_prefix('-') {
                    Some(x) => (true, x),
                    None => (false, m),
                };
                Some(Val::D(DecV { neg, mant: m.parse().ok()?, scale: sc.parse().ok()? }))
            }
            _ => None,
        }
    }
    /// Default placeholder for an evaluator.
    pub fn zero(ev: Ev) -> Val {
        match ev {
            Ev::F64 => Val::F(0.0),
            Ev::I64 => Val::I(0),
            Ev::Dec => Val::D(DecV { neg: false, mant: 0, scale: 0 }),
            Ev::Cpx => Val::C(0.0, 0.0),
            Ev::Num => Val::NI(0),
        }
    }
}

#[derive(Clone, Debug)]
pub enum Outcome {
    Ok(Val),
    Err(String),
    /// message, file:line of the panic site
    Panic(String, String),
    /// the armed step budget was exceeded after this many steps
    Budget(u64),
}

impl Outcome {
    pub fn class(&self) -> &'static str {
        match self {
            Outcome::Ok(_) => "ok",
            Outcome::Err(_) => "err",
            Outcome::Panic(..) => "panic",
            Outcome::Budget(_) => "budget",
        }
    }
    pub fn is_ok(&self) -> bool {
        matches!(self, Outcome::Ok(_))
    }
    pub fn is_err(&self) -> bool {
        matches!(self, Outcome::Err(_))
    }
    /// Same class, and for Ok the same bits. Error messages are not compared.
    pub fn same(&self, o: &Outcome) -> bool {
        match (self, o) {
            (Outcome::Ok(a), Outcome::Ok(b)) => a.same_bits(b),
            (Outcome::Err(_), Outcome::Err(_)) => true,
            (Outcome::Panic(..), Outcome::Panic(..)) => true,
            (Outcome::Budget(_), Outcome::Budget(_)) => true,
            _ => false,
        }
    }
    /// Full identity including messages (purity checks).
    pub fn identical(&self, o: &Outcome) -> bool {
        self.enc() == o.enc()
    }
    pub fn enc(&self) -> String {
        match self {
            Outcome::Ok(v) => format!("ok {}", v.enc()),
            Outcome::Err(m) => format!("err {}", m),
            Outcome::Panic(m, l) => format!("panic {} @{}", m, l),
            Outcome::Budget(_) => "budget".to_string(),
        }
    }
    pub fn show(&self) -> String {
        match self {
            Outcome::Ok(v) => format!("Ok({})", v.show()),
            Outcome::Err(m) => format!("Err({})", m),
            Outcome::Panic(m, l) => format!("PANIC({} @{})", m, l),
            Outcome::Budget(s) => format!("STEP-BUDGET-EXCEEDED({})", s),
        }
    }
}
