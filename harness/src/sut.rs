//! The recording boundary: every interaction with the library goes through `call`.

use crate::val::{DecV, Ev, Outcome, Val};
use num_complex::Complex;
use rust_decimal::Decimal;
use std::cell::RefCell;
use std::panic::{catch_unwind, AssertUnwindSafe};
use std::sync::atomic::{AtomicU64, Ordering};
use std::sync::Once;
use string_calculator::verif_hooks::{self, StepBudgetExceeded};
use string_calculator::{eval_complex, eval_decimal, eval_f64, eval_i64, eval_number, Number, ParseError};

thread_local! {
    static LAST_PANIC: RefCell<(String, String)> = RefCell::new((String::new(), String::new()));
}

static HOOK: Once = Once::new();
/// Total number of library calls made by this process.
pub static CALLS: AtomicU64 = AtomicU64::new(0);

/// Install a silent panic hook that remembers message and location per thread.
pub fn install_hook() {
    HOOK.call_once(|| {
        std::panic::set_hook(Box::new(|info| {
            let loc = info.location().map(|l| format!("{}:{}", l.file(), l.line())).unwrap_or_default();
            let msg = if let Some(s) = info.payload().downcast_ref::<&str>() {
                s.to_string()
            } else if let Some(s) = info.payload().downcast_ref::<String>() {
                s.clone()
            } else if info.payload().downcast_ref::<StepBudgetExceeded>().is_some() {
                "step budget".to_string()
            } else {
                "non-string payload".to_string()
            };
            LAST_PANIC.with(|p| *p.borrow_mut() = (msg, loc));
        }));
    });
}

pub fn to_decimal(d: &DecV) -> Decimal {
    let lo = (d.mant & 0xffff_ffff) as u32;
    let mid = ((d.mant >> 32) & 0xffff_ffff) as u32;
    let hi = ((d.mant >> 64) & 0xffff_ffff) as u32;
    let mut r = Decimal::from_parts(lo, mid, hi, d.neg, d.scale);
    if d.neg && d.mant == 0 {
        // from_parts normalises the sign of zero; a caller can still pass a negative zero
        r.set_sign_negative(true);
    }
    r
}

pub fn from_decimal(d: &Decimal) -> DecV {
    let m = d.mantissa();
    DecV { neg: d.is_sign_negative(), mant: m.unsigned_abs(), scale: d.scale() }
}

pub fn err_text(e: &ParseError) -> String {
    match e {
        ParseError::UnableToParse(m) => format!("UnableToParse:{}", m),
        ParseError::InvalidOperator(m) => format!("InvalidOperator:{}", m),
    }
}

pub const DEFAULT_BUDGET: u64 = 4096 + 256 * 256 + 4096;

/// Step budget of property C02 for an input of `len` characters.
pub fn c02_budget(len: usize) -> u64 {
    4096 + 256 * len as u64
}

pub struct Ret {
    pub outcome: Outcome,
    pub steps: u64,
}

fn raw(ev: Ev, expr: &str, ph: &Val) -> Result<Val, ParseError> {
    let s = expr.to_string();
    match (ev, ph) {
        (Ev::F64, Val::F(p)) => eval_f64(s, *p).map(Val::F),
        (Ev::I64, Val::I(p)) => eval_i64(s, *p).map(Val::I),
        (Ev::Dec, Val::D(p)) => eval_decimal(s, to_decimal(p)).map(|d| Val::D(from_decimal(&d))),
        (Ev::Cpx, Val::C(a, b)) => eval_complex(s, Complex::new(*a, *b)).map(|c| Val::C(c.re, c.im)),
        (Ev::Num, Val::NF(p)) => eval_number(s, Number::Float(*p)).map(num_to_val),
        (Ev::Num, Val::NI(p)) => eval_number(s, Number::Integer(*p)).map(num_to_val),
        _ => panic!("harness: placeholder type does not match evaluator {:?} {:?}", ev, ph),
    }
}

pub fn num_to_val(n: Number) -> Val {
    match n {
        Number::Float(f) => Val::NF(f),
        Number::Integer(i) => Val::NI(i),
    }
}

/// One recorded call with a step budget; `yield_every` > 0 shakes the schedule at ticks.
pub fn call_with(ev: Ev, expr: &str, ph: &Val, budget: u64, yield_every: u64) -> Ret {
    install_hook();
    CALLS.fetch_add(1, Ordering::Relaxed);
    let r = catch_unwind(AssertUnwindSafe(|| {
        verif_hooks::arm(budget, yield_every);
        raw(ev, expr, ph)
    }));
    let steps = verif_hooks::disarm();
    let outcome = match r {
        Ok(Ok(v)) => Outcome::Ok(v),
        Ok(Err(e)) => Outcome::Err(err_text(&e)),
        Err(payload) => {
            if let Some(b) = payload.downcast_ref::<StepBudgetExceeded>() {
                Outcome::Budget(b.steps)
            } else {
                let (m, l) = LAST_PANIC.with(|p| p.borrow().clone());
                Outcome::Panic(m, l)
            }
        }
    };
    Ret { outcome, steps }
}

/// Standard call: armed with the C02 budget, so ordinary monitors are cut loose from runaway loops (a trip is C02's to report).
pub fn call(ev: Ev, expr: &str, ph: &Val) -> Outcome {
    let len = expr.chars().count();
    // One call in four is preceded by the same expression with a "twin" placeholder (equal under ==
    // or numerically, yet a different value - or simply another value): a result that leaks from one
    // call into the next (memo keyed on the text, on ==, on a hash) then shows up as a wrong value in
    // whichever monitor is running, not only in C16's histories.
    if expr.contains('@') && crate::prng::fnv(expr.as_bytes()) % 4 == 0 {
        let t = twin(ph);
        // a Float zero has two twins: the zero of the other sign and the Integer zero
        let t = match (ph, crate::prng::fnv(expr.as_bytes()) % 8 < 4) {
            (Val::NF(x), true) if *x == 0.0 => Val::NF(-*x),
            // a complex placeholder has two twins: the conjugate and the one with the parts swapped
            (Val::C(a, b), true) => Val::C(*b, *a),
            _ => t,
        };
        let _ = call_with(ev, expr, &t, c02_budget(len), 0);
    }
    call_with(ev, expr, ph, c02_budget(len), 0).outcome
}

/// a placeholder easily confused with `p`
pub fn twin(p: &Val) -> Val {
    match p {
        Val::F(x) if *x == 0.0 || x.is_nan() => Val::F(if x.is_nan() { f64::from_bits(x.to_bits() ^ 1) } else { -*x }),
        Val::F(x) => Val::F(-*x),
        Val::I(x) => Val::I(x.wrapping_add(4294967296)),
        Val::D(d) if d.mant == 0 => Val::D(DecV { neg: !d.neg, mant: 0, scale: d.scale }),
        Val::D(d) if d.scale < 28 && d.mant < (1u128 << 92) => Val::D(DecV { neg: d.neg, mant: d.mant * 10, scale: d.scale + 1 }),
        Val::D(d) => Val::D(DecV { neg: !d.neg, mant: d.mant, scale: d.scale }),
        Val::C(a, b) if *b == 0.0 => Val::C(*a, -*b),
        Val::C(a, b) => Val::C(*a, -*b),
        Val::NI(i) => Val::NF(*i as f64),
        Val::NF(f) if *f == f.trunc() && f.abs() < 9e18 => Val::NI(*f as i64),
        Val::NF(f) => Val::NF(-*f),
    }
}

pub fn number_from_f64(v: f64) -> Val {
    num_to_val(Number::from(v))
}
pub fn number_from_i64(v: i64) -> Val {
    num_to_val(Number::from(v))
}
