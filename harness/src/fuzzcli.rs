//! Command-line side of the coverage-guided stage (see omni.rs, harness/fuzz, stages.py):
//!   scv fuzz-seeds <dir> <n> <seed>       seed corpus: generated trees, mutations and bombs, encoded
//!   scv fuzz-dict <file>                  libFuzzer dictionary: every token of every evaluator
//!   scv fuzz-confirm <prop> <jsonl>       re-judge candidate cases with this (regular) build
use crate::core::{Case, Stats, Verdict};
use crate::gen::*;
use crate::json::J;
use crate::monitors;
use crate::omni;
use crate::prng::Rng;
use crate::val::ALL_EV;

pub fn seeds(args: &[String]) -> i32 {
    let dir = match args.first() {
        Some(d) => d.clone(),
        None => return 2,
    };
    let n: usize = args.get(1).and_then(|s| s.parse().ok()).unwrap_or(500);
    let seed: u64 = args.get(2).and_then(|s| s.parse().ok()).unwrap_or(1);
    if std::fs::create_dir_all(&dir).is_err() {
        return 2;
    }
    let mut rng = Rng::derive(seed, "fuzz-seeds", n as u64);
    let mut k = 0usize;
    let put = |bytes: Vec<u8>, k: &mut usize| {
        let _ = std::fs::write(format!("{}/seed-{:05}", dir, *k), bytes);
        *k += 1;
    };
    for ev in ALL_EV {
        // every bomb family member that is short, every token once
        for (i, b) in bombs(ev).iter().enumerate() {
            if b.chars().count() <= 40 && i % 7 == (seed % 7) as usize {
                put(omni::encode(ev, i, i as u8, b), &mut k);
            }
        }
        for (i, t) in w1_vocab(ev, true, seed).iter().enumerate() {
            put(omni::encode(ev, i, i as u8, t), &mut k);
        }
    }
    while k < n {
        for ev in ALL_EV {
            let leaf = hostile_leaf(ev);
            let small = small_leaf(ev);
            let cfg = if rng.chance(1, 2) { GenCfg::full(ev, &leaf) } else { GenCfg::full(ev, &small) };
            let d = 1 + rng.below(5);
            let (_, s) = gen_expr(&cfg, &mut rng, d);
            let s = if rng.chance(1, 5) { mutate(&s, &mut rng, ev) } else { s };
            put(omni::encode(ev, rng.below(768), rng.below(256) as u8, &s), &mut k);
        }
    }
    println!("fuzz-seeds wrote {} files", k);
    0
}

pub fn dict(args: &[String]) -> i32 {
    let path = match args.first() {
        Some(p) => p.clone(),
        None => return 2,
    };
    let mut toks: std::collections::BTreeSet<String> = Default::default();
    for ev in ALL_EV {
        for t in w1_vocab(ev, true, 1) {
            toks.insert(t);
        }
        for (sp, _) in crate::syntax::spellings_for(ev) {
            toks.insert(format!("{}(", sp));
        }
    }
    for c in crate::syntax::SUP_DIGITS {
        toks.insert(c.to_string());
    }
    for c in crate::syntax::WHITE_SPACE {
        toks.insert(c.to_string());
    }
    for c in exotic_chars() {
        toks.insert(c.to_string());
    }
    for t in ["<<", ">>", "⌊", "⌋", "⌈", "⌉", "°", "rad", "π", "pi", "@", "i", ".", ",", "9223372036854775807", "9223372036854775808", "4294967296", "18446744073709551616", "79228162514264337593543950335", "0.0000000000000000000000000001", "170", "171", "1e", "0.5"] {
        toks.insert(t.to_string());
    }
    let mut out = String::new();
    for t in toks {
        out.push('"');
        for b in t.as_bytes() {
            out.push_str(&format!("\\x{:02x}", b));
        }
        out.push_str("\"\n");
    }
    match std::fs::write(&path, out) {
        Ok(()) => 0,
        Err(_) => 2,
    }
}

/// Reads candidate lines {"property","case",...}; prints, per candidate that this build also judges a
/// violation, one JSON line {property, config, class, sig, detail, case}.
pub fn confirm(args: &[String]) -> i32 {
    let prop = match args.first() {
        Some(p) => p.clone(),
        None => return 2,
    };
    let text = match args.get(1).map(std::fs::read_to_string) {
        Some(Ok(t)) => t,
        _ => return 2,
    };
    let mon = match monitors::find(&prop) {
        Some(m) => m,
        None => return 2,
    };
    let config = if cfg!(debug_assertions) { "checked" } else { "release" };
    crate::sut::install_hook();
    let h = std::thread::Builder::new().stack_size(crate::driver::WORK_STACK).spawn(move || {
        let mut st = Stats::default();
        let (mut n, mut bad) = (0, 0);
        for l in text.lines() {
            let j = match J::parse(l) {
                Ok(j) => j,
                Err(_) => continue,
            };
            let case = match j.get("case").and_then(Case::from_json) {
                Some(c) => c,
                None => continue,
            };
            n += 1;
            if let Verdict::Viol(v) = mon.judge(&case, &mut st) {
                bad += 1;
                let o = J::obj().set("property", J::s(&prop)).set("config", J::s(config)).set("class", J::s(&v.class)).set("sig", J::s(&v.sig)).set("detail", J::s(&v.detail)).set("case", case.to_json());
                println!("CONFIRMED {}", o.to_string());
            }
        }
        println!("FUZZ-CONFIRM candidates={} confirmed={}", n, bad);
    });
    match h.map(|h| h.join()) {
        Ok(Ok(())) => 0,
        _ => 3,
    }
}

/// Raw fuzzer artifacts (crash-*, timeout-*, oom-*) -> candidate lines for `fuzz-confirm`.
pub fn decode(args: &[String]) -> i32 {
    let prop = match args.first() {
        Some(p) => p.clone(),
        None => return 2,
    };
    for f in &args[1..] {
        if let Ok(bytes) = std::fs::read(f) {
            if let Some(inp) = omni::decode(&bytes) {
                let mut cs = omni::cases(&prop, &inp);
                if cs.is_empty() {
                    cs.push(Case::new(inp.ev, "fuzz", &inp.expr, inp.ph));
                }
                for c in cs {
                    println!("{}", J::obj().set("property", J::s(&prop)).set("artifact", J::s(f)).set("case", c.to_json()).to_string());
                }
            }
        }
    }
    0
}
