//! Reference evaluation for eval_decimal: exact rationals on the harness's own big integers.

use crate::bigint::{BigI, BigU, Rat};
use crate::ref_f64::{self as rf, libm};
use crate::syntax::{Ast, Br, Func, Op};
use crate::val::{DecV, Outcome, Val};
use std::cmp::Ordering;

#[derive(Clone, Debug)]
pub enum RD {
    /// must be Ok and numerically equal (scale ignored)
    Exact(Rat),
    /// quotient that is not representable: |got - q| <= 1e-27 * max(1, |q|)
    Quot(Rat),
    /// relative tolerance against a double
    Rel(f64, f64),
    /// Lambert W identity on this argument
    W(f64),
    MustErr,
    Unspec,
}

pub fn dec_max() -> Rat {
    Rat::from_decimal(false, (1u128 << 96) - 1, 0)
}

pub fn rat_of(d: &DecV) -> Rat {
    Rat::from_decimal(d.neg, d.mant, d.scale)
}

/// Classify an exact result: representable -> Exact; beyond +-Decimal::MAX -> MustErr; otherwise
/// (in range but needing rounding) -> Unspec.
/// |r| >= Decimal::MAX + 1: not representable even after rounding to an integer.
pub fn beyond_range(r: &Rat) -> bool {
    r.abs().cmp(&dec_max().add(&Rat::from_int(1))) != Ordering::Less
}

pub fn classify(r: Rat) -> RD {
    if beyond_range(&r) {
        return RD::MustErr;
    }
    if r.abs().cmp(&dec_max()) == Ordering::Greater {
        // between MAX and MAX+1: rounding may bring it back into range (weaker reading: no verdict)
        return RD::Unspec;
    }
    if r.as_decimal(28).is_some() {
        RD::Exact(r)
    } else {
        RD::Unspec
    }
}

fn operands(rs: &[RD]) -> Result<Vec<Rat>, RD> {
    if rs.iter().any(|r| !matches!(r, RD::Exact(_) | RD::MustErr)) {
        return Err(RD::Unspec);
    }
    if rs.iter().any(|r| matches!(r, RD::MustErr)) {
        return Err(RD::MustErr);
    }
    Ok(rs
        .iter()
        .map(|r| match r {
            RD::Exact(x) => x.clone(),
            _ => unreachable!(),
        })
        .collect())
}

pub fn binop(op: Op, a: &Rat, b: &Rat) -> RD {
    match op {
        Op::Add => classify(a.add(b)),
        Op::Sub => classify(a.sub(b)),
        Op::Mul => classify(a.mul(b)),
        Op::Div => match a.div(b) {
            None => RD::MustErr,
            Some(q) => {
                if beyond_range(&q) {
                    RD::MustErr
                } else if q.abs().cmp(&dec_max()) == Ordering::Greater {
                    RD::Unspec
                } else if q.as_decimal(28).is_some() {
                    RD::Exact(q)
                } else {
                    RD::Quot(q)
                }
            }
        },
        Op::Mod => {
            if b.is_zero() {
                return RD::MustErr;
            }
            // remainder with the sign of the dividend: a - b*trunc(a/b)
            let q = a.div(b).unwrap().trunc();
            let r = a.sub(&b.mul(&Rat::from_bigi(q)));
            classify(r)
        }
        Op::Pow => pow_ref(a, b),
        _ => RD::Unspec,
    }
}

fn in_band(x: f64) -> bool {
    x.is_finite() && x.abs() >= 1e-20 && x.abs() <= 1e20
}

fn rel(v: f64) -> RD {
    // a Decimal resolves 1e-28 absolutely: results below 1e-18 cannot carry ten significant digits
    if in_band(v) && v.abs() >= 1e-18 {
        RD::Rel(v, 1e-9)
    } else if v.is_finite() && v.abs() > 7.93e28 {
        RD::MustErr
    } else {
        RD::Unspec
    }
}

fn pow_ref(a: &Rat, b: &Rat) -> RD {
    let (x, y) = (a.to_f64(), b.to_f64());
    // small non-negative integer exponents: value from the exact product (C10 asks 1e-9, not exactness)
    if b.is_integer() && !b.is_neg() && !a.is_zero() {
        if let Some(n) = b.trunc().to_i128() {
            if n <= 64 {
                let mut r = Rat::from_int(1);
                for _ in 0..n {
                    r = r.mul(a);
                    if beyond_range(&r) {
                        return RD::MustErr;
                    }
                }
                let v = r.to_f64();
                return if in_band(v) && (n == 0 || in_band(x)) { RD::Rel(v, 1e-9) } else { RD::Unspec };
            }
        }
    }
    // moderate exponents only: rust_decimal rejects integer exponents of 2^32 and above, and huge
    // exponents amplify the rounding of ln(x)
    if x > 0.0 && in_band(x) && (y == 0.0 || in_band(y)) && y.abs() <= 1e6 && (y * x.ln()).abs() <= 60.0 {
        rel(rf::c_pow(x, y))
    } else {
        RD::Unspec
    }
}

/// Tolerance-checked function of operands that were rounded to doubles: the f64 reference decides
/// the value and, through its conditioning guard, whether the point may be judged at all.
fn guarded(f: Func, a: &[f64]) -> RD {
    let r = rf::func_ref(f, a);
    match r.q {
        rf::Q::Rel(_) | rf::Q::Exact | rf::Q::NumEq => rel(r.v),
        _ => RD::Unspec,
    }
}

pub fn round_even(r: &Rat) -> BigI {
    let f = r.floor();
    let frac = r.sub(&Rat::from_bigi(f.clone()));
    let half = Rat { num: BigI::from_i128(1), den: BigU::from_u64(2) };
    match frac.cmp(&half) {
        Ordering::Less => f,
        Ordering::Greater => f.add(&BigI::from_i128(1)),
        Ordering::Equal => {
            // tie: to even
            let two = BigI::from_i128(2);
            if f.divrem_trunc(&two).1.is_zero() {
                f
            } else {
                f.add(&BigI::from_i128(1))
            }
        }
    }
}

pub fn fact(r: &Rat) -> RD {
    if r.is_integer() {
        if r.is_neg() {
            return RD::Unspec;
        }
        let n = match r.trunc().to_i128() {
            Some(n) => n,
            None => return RD::MustErr,
        };
        if n >= 28 {
            return RD::MustErr;
        }
        let mut p = Rat::from_int(1);
        for i in 2..=n {
            p = p.mul(&Rat::from_int(i));
        }
        return RD::Exact(p);
    }
    let x = r.to_f64();
    if x.abs() > 25.0 {
        return RD::Unspec;
    }
    match rf::fact_ref(x).q {
        rf::Q::Rel(_) => {
            let g = rf::c_tgamma(x + 1.0);
            if in_band(g) {
                RD::Rel(g, 1e-9)
            } else {
                RD::Unspec
            }
        }
        _ => RD::Unspec,
    }
}

pub fn func(f: Func, a: &[Rat]) -> RD {
    let x = &a[0];
    let xf = x.to_f64();
    unsafe {
        match f {
            Func::Abs => classify(x.abs()),
            Func::Sgn => RD::Exact(Rat::from_int(if x.is_zero() {
                0
            } else if x.is_neg() {
                -1
            } else {
                1
            })),
            Func::Floor => RD::Exact(Rat::from_bigi(x.floor())),
            Func::Ceil => RD::Exact(Rat::from_bigi(x.ceil())),
            Func::Trunc => RD::Exact(Rat::from_bigi(x.trunc())),
            Func::Round => RD::Exact(Rat::from_bigi(round_even(x))),
            Func::Mod => binop(Op::Mod, &a[0], &a[1]),
            Func::Pow => pow_ref(&a[0], &a[1]),
            Func::Sqrt => {
                if x.is_neg() {
                    RD::MustErr
                } else if x.is_zero() {
                    RD::Exact(Rat::from_int(0))
                } else if in_band(xf) {
                    rel(libm::sqrt(xf))
                } else {
                    RD::Unspec
                }
            }
            Func::Ln | Func::Lb => {
                if x.is_neg() || x.is_zero() {
                    RD::MustErr
                } else if x.eq(&Rat::from_int(1)) {
                    RD::Exact(Rat::from_int(0))
                } else if in_band(xf) {
                    // the argument was rounded to a double: only well-conditioned points get a verdict
                    guarded(f, &[xf])
                } else {
                    RD::Unspec
                }
            }
            Func::Log => {
                let b = a[1].to_f64();
                if in_band(xf) && in_band(b) && xf > 0.0 && b > 0.0 && (b - 1.0).abs() > 1e-6 && (xf - 1.0).abs() > 1e-6 {
                    guarded(f, &[xf, b])
                } else {
                    RD::Unspec
                }
            }
            Func::Exp => {
                if x.is_zero() {
                    RD::Exact(Rat::from_int(1))
                } else if in_band(xf) {
                    guarded(f, &[xf])
                } else {
                    RD::Unspec
                }
            }
            Func::Exp2 => {
                if x.is_zero() {
                    RD::Exact(Rat::from_int(1))
                } else if in_band(xf) {
                    guarded(f, &[xf])
                } else {
                    RD::Unspec
                }
            }
            // root(n, x) = x^(1/n)
            Func::Root => {
                let n = xf;
                let v = a[1].to_f64();
                if v > 0.0 && in_band(v) && in_band(n) {
                    guarded(f, &[n, v])
                } else {
                    RD::Unspec
                }
            }
            Func::W => {
                if xf.is_finite() && xf >= -libm::exp(-1.0) + 1e-12 && xf.abs() <= 1e20 {
                    RD::W(xf)
                } else {
                    RD::Unspec
                }
            }
            _ => RD::Unspec,
        }
    }
}

/// every partial sum of `xs`, in any order, is representable without rounding
fn sums_exact(xs: &[Rat]) -> bool {
    let mut max_scale = 0u32;
    let mut total = Rat::from_int(0);
    for x in xs {
        match x.as_decimal(28) {
            Some((_, _, s)) => max_scale = max_scale.max(s),
            None => return false,
        }
        total = total.add(&x.abs());
    }
    let scaled = total.mul(&Rat::from_bigi(crate::bigint::BigI::from_mag(false, BigU::pow10(max_scale))));
    scaled.cmp(&dec_max()) != Ordering::Greater
}

pub fn agg(f: Func, xs: &[Rat]) -> RD {
    if xs.is_empty() {
        return if f == Func::Avg { RD::Exact(Rat::from_int(0)) } else { RD::Unspec };
    }
    let mut s = xs.to_vec();
    s.sort_by(|a, b| a.cmp(b));
    match f {
        Func::Min => RD::Exact(s[0].clone()),
        Func::Max => RD::Exact(s[s.len() - 1].clone()),
        Func::Avg => {
            let mut sum = Rat::from_int(0);
            let mut pos = Rat::from_int(0);
            let mut neg = Rat::from_int(0);
            for x in xs {
                sum = sum.add(x);
                if x.is_neg() {
                    neg = neg.add(x)
                } else {
                    pos = pos.add(x)
                }
            }
            // a running sum that needs rounding in some order: value unspecified. Every partial sum is
            // representable iff the sum of the magnitudes fits at the largest scale among the arguments.
            let _ = (&pos, &neg);
            if !sums_exact(xs) {
                return RD::Unspec;
            }
            binop(Op::Div, &sum, &Rat::from_int(xs.len() as i128))
        }
        Func::Med => {
            let n = s.len();
            if n % 2 == 1 {
                RD::Exact(s[n / 2].clone())
            } else {
                let t = s[n / 2 - 1].add(&s[n / 2]);
                if !sums_exact(&[s[n / 2 - 1].clone(), s[n / 2].clone()]) {
                    return RD::Unspec;
                }
                binop(Op::Div, &t, &Rat::from_int(2))
            }
        }
        _ => RD::Unspec,
    }
}

/// literal -> exact value if it has at most 28 significant and 28 fractional digits
pub fn lit(t: &str) -> RD {
    let (ip, fp) = match t.split_once('.') {
        Some((a, b)) => (a, b),
        None => (t, ""),
    };
    let digits = format!("{}{}", ip, fp);
    let sig = digits.trim_start_matches('0').len();
    if sig > 28 || fp.len() > 28 {
        return RD::Unspec;
    }
    RD::Exact(Rat::from_literal(t))
}

pub fn eval(ast: &Ast, ph: &DecV) -> RD {
    match ast {
        Ast::Lit(t) => lit(t),
        Ast::Ans => RD::Exact(rat_of(ph)),
        Ast::Pi(_) => RD::Rel(rf::PI, 1e-9),
        Ast::E => RD::Rel(rf::E, 1e-9),
        Ast::Group(Br::Round, a) | Ast::Pos(a) => eval(a, ph),
        Ast::Group(Br::Floor, a) => un(Func::Floor, eval(a, ph)),
        Ast::Group(Br::Ceil, a) => un(Func::Ceil, eval(a, ph)),
        Ast::Neg(a) => match operands(&[eval(a, ph)]) {
            Ok(v) => RD::Exact(v[0].neg()),
            Err(e) => e,
        },
        Ast::Bin(op, a, b) => match operands(&[eval(a, ph), eval(b, ph)]) {
            Ok(v) => binop(*op, &v[0], &v[1]),
            Err(e) => e,
        },
        Ast::IMul(a, b) => match operands(&[eval(a, ph), eval(b, ph)]) {
            Ok(v) => binop(Op::Mul, &v[0], &v[1]),
            Err(e) => e,
        },
        Ast::Sup(a, d) => match (operands(&[eval(a, ph)]), lit(d)) {
            (Ok(v), RD::Exact(e)) => pow_ref(&v[0], &e),
            (Err(e), _) => e,
            _ => RD::Unspec,
        },
        Ast::Fact(a) => match operands(&[eval(a, ph)]) {
            Ok(v) => fact(&v[0]),
            Err(e) => e,
        },
        Ast::Call(f, _, args) => {
            let rs: Vec<RD> = args.iter().map(|a| eval(a, ph)).collect();
            match operands(&rs) {
                Ok(v) => match f {
                    Func::Min | Func::Max | Func::Avg | Func::Med => agg(*f, &v),
                    _ => func(*f, &v),
                },
                Err(e) => e,
            }
        }
        _ => RD::Unspec,
    }
}

fn un(f: Func, r: RD) -> RD {
    match operands(&[r]) {
        Ok(v) => func(f, &v),
        Err(e) => e,
    }
}

pub fn judge(r: &RD, out: &Outcome, panic_counts: bool) -> Option<(&'static str, String)> {
    let got = match out {
        Outcome::Budget(_) => return None,
        Outcome::Panic(m, l) => {
            return if panic_counts && !matches!(r, RD::Unspec) {
                Some(("panic", format!("panicked ({} @{}) where {} is due", m, l, show(r))))
            } else {
                None
            }
        }
        Outcome::Ok(Val::D(d)) => Some(d),
        Outcome::Ok(v) => return Some(("wrong-type", v.show())),
        Outcome::Err(_) => None,
    };
    match (r, got) {
        (RD::Unspec, _) => None,
        (RD::MustErr, None) => None,
        (RD::MustErr, Some(d)) => Some(("value-where-err", format!("expected Err, got {}", Val::D(*d).show()))),
        (_, None) => Some(("err-where-value", format!("expected {}, got {}", show(r), out.show()))),
        (RD::Exact(x), Some(d)) => {
            if rat_of(d).eq(x) {
                None
            } else {
                Some(("wrong-value", format!("expected exactly {}, got {}", show(r), Val::D(*d).show())))
            }
        }
        (RD::Quot(q), Some(d)) => {
            let diff = rat_of(d).sub(q).abs();
            let one = Rat::from_int(1);
            let m = if q.abs().cmp(&one) == Ordering::Greater { q.abs() } else { one };
            let tol = m.mul(&Rat::from_decimal(false, 1, 27));
            if diff.cmp(&tol) != Ordering::Greater {
                None
            } else {
                Some(("outside-tolerance", format!("quotient {} differs from exact {:?} by more than 1e-27", Val::D(*d).show(), q.to_f64())))
            }
        }
        (RD::Rel(v, t), Some(d)) => {
            let g = rat_of(d).to_f64();
            // one unit of the last representable place (1e-28) of slack on top of the relative tolerance
            if rf::close(g, *v, *t) || (g - *v).abs() <= 1e-28 {
                None
            } else {
                Some(("outside-tolerance", format!("expected {:?} within {:e}, got {:?}", v, t, g)))
            }
        }
        (RD::W(x), Some(d)) => {
            let w = rat_of(d).to_f64();
            if rf::w_ok(*x, w) {
                None
            } else {
                Some(("w-identity", format!("w({:?}) returned {:?}", x, w)))
            }
        }
    }
}

pub fn show(r: &RD) -> String {
    match r {
        RD::Exact(x) => match x.as_decimal(28) {
            Some((n, m, s)) => format!("{}{}e-{}", if n { "-" } else { "" }, m, s),
            None => format!("{:?}", x.to_f64()),
        },
        RD::Quot(q) => format!("quotient~{:?}", q.to_f64()),
        RD::Rel(v, t) => format!("{:?}±{:e}", v, t),
        RD::W(x) => format!("W({:?})", x),
        RD::MustErr => "Err".into(),
        RD::Unspec => "unspecified".into(),
    }
}
