//! Reference evaluation for eval_f64 (DESIGN Appendix C): IEEE / C-library operation applied node by
//! node through FFI to the host libm; tolerance-checked functions only directly on exact operands.

use crate::syntax::{Ast, Br, Func, Op};
use crate::val::{Outcome, Val};

pub mod libm {
    extern "C" {
        pub fn fmod(a: f64, b: f64) -> f64;
        pub fn pow(a: f64, b: f64) -> f64;
        pub fn tgamma(a: f64) -> f64;
        pub fn round(a: f64) -> f64;
        pub fn floor(a: f64) -> f64;
        pub fn ceil(a: f64) -> f64;
        pub fn trunc(a: f64) -> f64;
        pub fn sqrt(a: f64) -> f64;
        pub fn fabs(a: f64) -> f64;
        pub fn sin(a: f64) -> f64;
        pub fn cos(a: f64) -> f64;
        pub fn tan(a: f64) -> f64;
        pub fn sinh(a: f64) -> f64;
        pub fn cosh(a: f64) -> f64;
        pub fn tanh(a: f64) -> f64;
        pub fn asin(a: f64) -> f64;
        pub fn acos(a: f64) -> f64;
        pub fn atan(a: f64) -> f64;
        pub fn asinh(a: f64) -> f64;
        pub fn acosh(a: f64) -> f64;
        pub fn atanh(a: f64) -> f64;
        pub fn atan2(a: f64, b: f64) -> f64;
        pub fn exp(a: f64) -> f64;
        pub fn exp2(a: f64) -> f64;
        pub fn log(a: f64) -> f64;
        pub fn log2(a: f64) -> f64;
    }
}

pub const PI: f64 = f64::from_bits(0x400921FB54442D18);
pub const E: f64 = f64::from_bits(0x4005BF0A8B145769);

pub fn c_fmod(a: f64, b: f64) -> f64 {
    unsafe { libm::fmod(a, b) }
}
pub fn c_pow(a: f64, b: f64) -> f64 {
    unsafe { libm::pow(a, b) }
}
pub fn c_tgamma(a: f64) -> f64 {
    unsafe { libm::tgamma(a) }
}

/// How the value of a node is to be compared.
#[derive(Clone, Copy, Debug, PartialEq)]
pub enum Q {
    /// bit for bit, NaNs identified
    Exact,
    /// numeric equality (sign of zero free)
    NumEq,
    /// relative tolerance
    Rel(f64),
    /// absolute tolerance
    Abs(f64),
    /// Lambert W of this argument: identity w*e^w = x and w >= -1
    W(f64),
    /// must be Ok, value not asserted
    OkAny,
    /// no verdict
    Unspec,
}

#[derive(Clone, Copy, Debug)]
pub struct RF {
    pub v: f64,
    pub q: Q,
}

fn ex(v: f64) -> RF {
    RF { v, q: Q::Exact }
}
fn unspec() -> RF {
    RF { v: f64::NAN, q: Q::Unspec }
}
fn okany() -> RF {
    RF { v: f64::NAN, q: Q::OkAny }
}

/// A child usable as an exactly known operand?
fn known(r: &RF) -> Option<f64> {
    match r.q {
        Q::Exact => Some(r.v),
        Q::NumEq if r.v != 0.0 => Some(r.v),
        _ => None,
    }
}

fn degrade(rs: &[RF]) -> RF {
    if rs.iter().any(|r| r.q == Q::Unspec) {
        unspec()
    } else {
        okany()
    }
}

pub fn is_int(x: f64) -> bool {
    x.is_finite() && x == x.trunc()
}

/// Reference n! / Gamma(x+1) for eval_f64-like evaluators.
pub fn fact_ref(x: f64) -> RF {
    if !x.is_finite() {
        return unspec();
    }
    if is_int(x) {
        if x < 0.0 {
            return unspec();
        }
        if x <= 22.0 {
            let mut r = 1.0f64;
            let mut i = 2.0;
            while i <= x {
                r *= i;
                i += 1.0;
            }
            return RF { v: r, q: Q::NumEq };
        }
        if x <= 170.0 {
            return RF { v: c_tgamma(x + 1.0), q: Q::Rel(1e-9) };
        }
        return unspec();
    }
    if x.abs() > 150.0 {
        return unspec();
    }
    // keep away from the poles of Gamma(x+1) at x = -1, -2, ...
    if x < 0.0 {
        let a = x + 1.0;
        let dist = (a - a.round()).abs();
        if dist < 1e-4 * x.abs().max(1.0) {
            return unspec();
        }
    }
    let g = c_tgamma(x + 1.0);
    if !g.is_finite() || g == 0.0 || g.abs() < 1e-290 {
        return unspec();
    }
    RF { v: g, q: Q::Rel(1e-9) }
}

fn rel(v: f64) -> RF {
    if v.is_finite() && (v == 0.0 || v.abs() > 1e-290) {
        RF { v, q: Q::Rel(1e-9) }
    } else {
        okany()
    }
}

/// Value of a tolerance-checked function inside its domain (None outside).
fn approx_value(f: Func, a: &[f64]) -> Option<f64> {
    use Func::*;
    let x = a[0];
    let y = if a.len() > 1 { a[1] } else { 0.0 };
    unsafe {
        Some(match f {
            Exp if x.is_finite() => libm::exp(x),
            Exp2 if x.is_finite() => libm::exp2(x),
            Ln if x.is_finite() && x > 0.0 => libm::log(x),
            Lb if x.is_finite() && x > 0.0 => libm::log2(x),
            Log if x.is_finite() && y.is_finite() && x > 0.0 && y > 0.0 && y != 1.0 => libm::log(x) / libm::log(y),
            // root(n, x) = x^(1/n)
            Root if x.is_finite() && y.is_finite() && y > 0.0 && x != 0.0 => libm::pow(y, 1.0 / x),
            Sin if x.abs() <= 1e6 => libm::sin(x),
            Cos if x.abs() <= 1e6 => libm::cos(x),
            Tan if x.abs() <= 1e6 => libm::tan(x),
            Sinh if x.abs() <= 1e6 => libm::sinh(x),
            Cosh if x.abs() <= 1e6 => libm::cosh(x),
            Tanh if x.abs() <= 1e6 => libm::tanh(x),
            Atan if x.abs() <= 1e6 => libm::atan(x),
            Asinh if x.abs() <= 1e6 => libm::asinh(x),
            Asin if x.abs() <= 1.0 => libm::asin(x),
            Acos if x.abs() <= 1.0 => libm::acos(x),
            Acosh if x >= 1.0 && x.is_finite() => libm::acosh(x),
            Atanh if x.abs() < 1.0 => libm::atanh(x),
            Atan2 if x.is_finite() && y.is_finite() && !(x == 0.0 && y == 0.0) => libm::atan2(x, y),
            _ => return None,
        })
    }
}

/// Conditioning guard (DESIGN §3.3): the reference is re-evaluated with each operand perturbed by
/// +-1e-13 relative; if its own result moves by more than 1e-11 relative the point is ill-conditioned
/// and gets no value verdict.
fn well_conditioned(f: Func, a: &[f64], v: f64) -> bool {
    for i in 0..a.len() {
        for d in [1.0 + 1e-13, 1.0 - 1e-13] {
            let mut b = a.to_vec();
            b[i] = a[i] * d;
            match approx_value(f, &b) {
                Some(w) if w.is_finite() => {
                    if (w - v).abs() > 1e-11 * v.abs() {
                        return false;
                    }
                }
                // the perturbed point leaves the domain: we are on its edge
                _ => return false,
            }
        }
    }
    true
}

/// Depth-1 reference of a one- or two-argument function on exactly known finite-or-not operands.
pub fn func_ref(f: Func, a: &[f64]) -> RF {
    use Func::*;
    let x = a[0];
    let y = if a.len() > 1 { a[1] } else { 0.0 };
    unsafe {
        match f {
            Abs => ex(libm::fabs(x)),
            Floor => ex(libm::floor(x)),
            Ceil => ex(libm::ceil(x)),
            Trunc => ex(libm::trunc(x)),
            Round => ex(libm::round(x)),
            Sqrt => ex(libm::sqrt(x)),
            Mod => ex(libm::fmod(x, y)),
            Pow => ex(libm::pow(x, y)),
            Sgn => {
                if x.is_nan() {
                    unspec()
                } else if x > 0.0 {
                    RF { v: 1.0, q: Q::NumEq }
                } else if x < 0.0 {
                    RF { v: -1.0, q: Q::NumEq }
                } else {
                    RF { v: 0.0, q: Q::NumEq }
                }
            }
            W => {
                if x.is_finite() && x >= -libm::exp(-1.0) {
                    RF { v: f64::NAN, q: Q::W(x) }
                } else {
                    unspec()
                }
            }
            ILog => unspec(),
            _ => match approx_value(f, a) {
                Some(v) => {
                    let r = rel(v);
                    if matches!(r.q, Q::Rel(_)) && v != 0.0 && !well_conditioned(f, a, v) {
                        RF { v, q: Q::OkAny }
                    } else {
                        r
                    }
                }
                None => okany(),
            },
        }
    }
}

/// Aggregate of exactly known arguments.
pub fn agg_ref(f: Func, xs: &[f64]) -> RF {
    if xs.is_empty() {
        return if f == Func::Avg { RF { v: 0.0, q: Q::NumEq } } else { unspec() };
    }
    if xs.iter().any(|x| !x.is_finite()) {
        return unspec();
    }
    let mx = xs.iter().fold(0.0f64, |m, x| m.max(x.abs()));
    match f {
        Func::Min => RF { v: xs.iter().copied().fold(f64::INFINITY, f64::min), q: Q::NumEq },
        Func::Max => RF { v: xs.iter().copied().fold(f64::NEG_INFINITY, f64::max), q: Q::NumEq },
        Func::Avg => {
            if mx * xs.len() as f64 > 1e307 {
                return unspec();
            }
            let mut s = xs.to_vec();
            s.sort_by(|a, b| a.abs().partial_cmp(&b.abs()).unwrap());
            let sum: f64 = s.iter().sum();
            RF { v: sum / xs.len() as f64, q: Q::Abs(1e-12 * mx) }
        }
        Func::Med => {
            let mut s = xs.to_vec();
            s.sort_by(|a, b| a.partial_cmp(b).unwrap());
            let n = s.len();
            if n % 2 == 1 {
                RF { v: s[n / 2], q: Q::NumEq }
            } else {
                if mx > 8e307 {
                    return unspec();
                }
                RF { v: (s[n / 2 - 1] + s[n / 2]) / 2.0, q: Q::Abs(1e-12 * mx) }
            }
        }
        _ => unspec(),
    }
}

pub fn parse_lit(t: &str) -> f64 {
    t.parse::<f64>().expect("literal")
}

pub fn eval(ast: &Ast, ph: f64) -> RF {
    match ast {
        Ast::Lit(t) => ex(parse_lit(t)),
        Ast::ImLit(_) => unspec(),
        Ast::Pi(_) => ex(PI),
        Ast::E => ex(E),
        Ast::Ans => ex(ph),
        Ast::Group(Br::Round, a) => eval(a, ph),
        Ast::Pos(a) => eval(a, ph),
        Ast::Neg(a) => {
            let r = eval(a, ph);
            match known(&r) {
                Some(v) => ex(-v),
                None => degrade(&[r]),
            }
        }
        Ast::Group(Br::Floor, a) => un(Func::Floor, eval(a, ph)),
        Ast::Group(Br::Ceil, a) => un(Func::Ceil, eval(a, ph)),
        Ast::Bin(op, a, b) => {
            let (ra, rb) = (eval(a, ph), eval(b, ph));
            match (known(&ra), known(&rb)) {
                (Some(x), Some(y)) => match op {
                    Op::Add => ex(x + y),
                    Op::Sub => ex(x - y),
                    Op::Mul => ex(x * y),
                    Op::Div => ex(x / y),
                    Op::Mod => ex(c_fmod(x, y)),
                    Op::Pow => ex(c_pow(x, y)),
                    _ => unspec(),
                },
                _ => degrade(&[ra, rb]),
            }
        }
        Ast::IMul(a, b) => {
            let (ra, rb) = (eval(a, ph), eval(b, ph));
            match (known(&ra), known(&rb)) {
                (Some(x), Some(y)) => ex(x * y),
                _ => degrade(&[ra, rb]),
            }
        }
        Ast::Sup(a, d) => {
            let r = eval(a, ph);
            match known(&r) {
                Some(x) => ex(c_pow(x, parse_lit(d))),
                None => degrade(&[r]),
            }
        }
        Ast::Fact(a) => {
            let r = eval(a, ph);
            match known(&r) {
                Some(x) => fact_ref(x),
                None => {
                    if r.q == Q::Unspec {
                        unspec()
                    } else {
                        // value unknown, factorial of it may be out of every specified region
                        unspec()
                    }
                }
            }
        }
        Ast::Deg(a) => {
            let r = eval(a, ph);
            match known(&r) {
                Some(x) if x.is_finite() => rel(x * PI / 180.0),
                Some(_) => okany(),
                None => degrade(&[r]),
            }
        }
        Ast::Rad(a) => {
            let r = eval(a, ph);
            match known(&r) {
                Some(x) if x.is_finite() => rel(x * 180.0 / PI),
                Some(_) => okany(),
                None => degrade(&[r]),
            }
        }
        Ast::Call(f, _, args) => {
            let rs: Vec<RF> = args.iter().map(|a| eval(a, ph)).collect();
            let ks: Vec<Option<f64>> = rs.iter().map(known).collect();
            if ks.iter().all(|k| k.is_some()) {
                let xs: Vec<f64> = ks.into_iter().map(|k| k.unwrap()).collect();
                match f {
                    Func::Min | Func::Max | Func::Avg | Func::Med => agg_ref(*f, &xs),
                    _ => func_ref(*f, &xs),
                }
            } else if matches!(f, Func::W | Func::ILog) {
                unspec()
            } else {
                degrade(&rs)
            }
        }
    }
}

fn un(f: Func, r: RF) -> RF {
    match known(&r) {
        Some(x) => func_ref(f, &[x]),
        None => degrade(&[r]),
    }
}

pub fn close(got: f64, want: f64, tol: f64) -> bool {
    if got.is_nan() || want.is_nan() {
        return got.is_nan() && want.is_nan();
    }
    if got == want {
        return true;
    }
    (got - want).abs() <= tol * want.abs() + 1e-300
}

/// Lambert W identity check.
pub fn w_ok(x: f64, w: f64) -> bool {
    if !w.is_finite() || w < -1.0 - 1e-9 {
        return false;
    }
    let lhs = w * w.exp();
    if !lhs.is_finite() {
        // compare in logs for huge x
        return x > 0.0 && w > 0.0 && ((w.ln() + w) - x.ln()).abs() <= 1e-9;
    }
    (lhs - x).abs() <= 1e-9 * x.abs() + 1e-300
}

/// Judge a plain f64 against an expectation. None = consistent; Some(class, detail) = violation.
pub fn judge_value(r: &RF, got: f64) -> Option<(&'static str, String)> {
    let bad = |cls: &'static str| Some((cls, format!("expected {:?} ({:?}), got {:?}", r.v, r.q, got)));
    match r.q {
        Q::Exact => {
            if (r.v.is_nan() && got.is_nan()) || r.v.to_bits() == got.to_bits() {
                None
            } else {
                bad("wrong-bits")
            }
        }
        Q::NumEq => {
            if (r.v.is_nan() && got.is_nan()) || r.v == got {
                None
            } else {
                bad("wrong-value")
            }
        }
        Q::Rel(t) => {
            if close(got, r.v, t) {
                None
            } else {
                bad("outside-tolerance")
            }
        }
        Q::Abs(t) => {
            if (got - r.v).abs() <= t + 1e-300 {
                None
            } else {
                bad("outside-tolerance")
            }
        }
        Q::W(x) => {
            if w_ok(x, got) {
                None
            } else {
                Some(("w-identity", format!("w({:?}) returned {:?}: w*e^w = {:?}", x, got, got * got.exp())))
            }
        }
        Q::OkAny | Q::Unspec => None,
    }
}

pub fn judge(r: &RF, out: &Outcome) -> Option<(&'static str, String)> {
    match out {
        Outcome::Ok(Val::F(g)) => judge_value(r, *g),
        Outcome::Ok(_) => Some(("wrong-type", "non-f64 result".into())),
        Outcome::Err(m) => {
            if r.q == Q::Unspec {
                None
            } else {
                Some(("err-where-value", format!("expected a value ({:?} {:?}), got Err({})", r.v, r.q, m)))
            }
        }
        // panics and budget trips belong to C01 / C02
        _ => None,
    }
}
