//! Reference lexer, grammar recogniser / parser and renderer, written from the property
//! statements and the README (DESIGN.md §3.1, §3.2). Structured as a layered recursive-descent
//! grammar, independent of the library's precedence-climbing parser.

use crate::val::Ev;

#[derive(Clone, Copy, PartialEq, Eq, Debug, Hash, PartialOrd, Ord)]
pub enum Func {
    Abs,
    Sgn,
    Sqrt,
    Root,
    Pow,
    Mod,
    Exp,
    Exp2,
    Ln,
    Lb,
    Log,
    ILog,
    Trunc,
    Floor,
    Ceil,
    Round,
    Sin,
    Cos,
    Tan,
    Sinh,
    Cosh,
    Tanh,
    Asin,
    Acos,
    Atan,
    Asinh,
    Acosh,
    Atanh,
    Atan2,
    W,
    Min,
    Max,
    Avg,
    Med,
    Gcd,
    Lcm,
}

#[derive(Clone, Copy, PartialEq, Eq, Debug)]
pub enum Arity {
    One,
    Two,
    Var,
}

/// Every spelling of the README, with the function it names.
pub const SPELLINGS: &[(&str, Func)] = &[
    ("abs", Func::Abs),
    ("sgn", Func::Sgn),
    ("sign", Func::Sgn),
    ("signum", Func::Sgn),
    ("sqrt", Func::Sqrt),
    ("root", Func::Root),
    ("pow", Func::Pow),
    ("mod", Func::Mod),
    ("exp", Func::Exp),
    ("exp2", Func::Exp2),
    ("ln", Func::Ln),
    ("lb", Func::Lb),
    ("log", Func::Log),
    ("ilog", Func::ILog),
    ("trunc", Func::Trunc),
    ("truncate", Func::Trunc),
    ("floor", Func::Floor),
    ("ceil", Func::Ceil),
    ("round", Func::Round),
    ("sin", Func::Sin),
    ("cos", Func::Cos),
    ("tan", Func::Tan),
    ("sinh", Func::Sinh),
    ("cosh", Func::Cosh),
    ("tanh", Func::Tanh),
    ("asin", Func::Asin),
    ("acos", Func::Acos),
    ("atan", Func::Atan),
    ("asinh", Func::Asinh),
    ("arsinh", Func::Asinh),
    ("acosh", Func::Acosh),
    ("arcosh", Func::Acosh),
    ("atanh", Func::Atanh),
    ("artanh", Func::Atanh),
    ("atan2", Func::Atan2),
    ("lambert_w", Func::W),
    ("w", Func::W),
    ("min", Func::Min),
    ("max", Func::Max),
    ("avg", Func::Avg),
    ("med", Func::Med),
    ("median", Func::Med),
    ("gcd", Func::Gcd),
    ("lcm", Func::Lcm),
];

impl Func {
    pub fn arity(self) -> Arity {
        use Func::*;
        match self {
            Root | Pow | Mod | Log | ILog | Atan2 => Arity::Two,
            Min | Max | Avg | Med | Gcd | Lcm => Arity::Var,
            _ => Arity::One,
        }
    }
    pub fn is_trig(self) -> bool {
        use Func::*;
        matches!(self, Sin | Cos | Tan | Sinh | Cosh | Tanh | Asin | Acos | Atan | Asinh | Acosh | Atanh)
    }
    /// README availability table.
    pub fn available(self, ev: Ev) -> bool {
        use Func::*;
        match ev {
            Ev::F64 | Ev::Num => !matches!(self, Gcd | Lcm),
            Ev::Dec => !matches!(self, Gcd | Lcm | Atan2) && !self.is_trig(),
            Ev::Cpx => matches!(self, Abs | Sqrt | Root | Pow | Exp | Exp2 | Ln | Lb | Log) || self.is_trig(),
            Ev::I64 => matches!(self, Abs | Sgn | Sqrt | Root | Pow | Mod | Exp | Exp2 | Ln | Lb | Log | Min | Max | Avg | Med | Gcd | Lcm),
        }
    }
    pub fn spellings(self) -> Vec<&'static str> {
        SPELLINGS.iter().filter(|(_, f)| *f == self).map(|(s, _)| *s).collect()
    }
    pub fn name(self) -> &'static str {
        self.spellings()[0]
    }
}

pub fn spellings_for(ev: Ev) -> Vec<(&'static str, Func)> {
    SPELLINGS.iter().filter(|(_, f)| f.available(ev)).copied().collect()
}

pub fn has_consts(ev: Ev) -> bool {
    ev != Ev::I64
}
pub fn has_degrad(ev: Ev) -> bool {
    matches!(ev, Ev::F64 | Ev::Cpx | Ev::Num)
}
pub fn has_floorceil_brackets(ev: Ev) -> bool {
    matches!(ev, Ev::F64 | Ev::Dec | Ev::Num)
}
pub fn has_fact_mod(ev: Ev) -> bool {
    ev != Ev::Cpx
}
pub fn has_bitops(ev: Ev) -> bool {
    ev == Ev::I64
}

pub const SUP_DIGITS: [char; 10] = ['⁰', '¹', '²', '³', '⁴', '⁵', '⁶', '⁷', '⁸', '⁹'];

pub fn sup_to_digit(c: char) -> Option<char> {
    SUP_DIGITS.iter().position(|x| *x == c).map(|i| (b'0' + i as u8) as char)
}
pub fn to_sup(digits: &str) -> String {
    digits.chars().map(|c| SUP_DIGITS[(c as u8 - b'0') as usize]).collect()
}

/// The 25 code points with the Unicode White_Space property.
pub const WHITE_SPACE: [char; 25] = [
    '\u{9}', '\u{a}', '\u{b}', '\u{c}', '\u{d}', '\u{20}', '\u{85}', '\u{a0}', '\u{1680}', '\u{2000}', '\u{2001}', '\u{2002}', '\u{2003}',
    '\u{2004}', '\u{2005}', '\u{2006}', '\u{2007}', '\u{2008}', '\u{2009}', '\u{200a}', '\u{2028}', '\u{2029}', '\u{202f}', '\u{205f}',
    '\u{3000}',
];

#[derive(Clone, PartialEq, Eq, Debug, Hash)]
pub enum Tok {
    Num(String),
    /// complex only: literal directly followed by `i` (empty text for the bare unit)
    ImNum(String),
    Sup(String),
    At,
    Plus,
    Minus,
    Star,
    Slash,
    Caret,
    Percent,
    Bang,
    Amp,
    Bar,
    Shl,
    Shr,
    LPar,
    RPar,
    LFloor,
    RFloor,
    LCeil,
    RCeil,
    Comma,
    Deg,
    Rad,
    /// true = written `π`
    Pi(bool),
    E,
    Fn(Func, &'static str),
}

pub fn strip_ws(s: &str) -> String {
    s.chars().filter(|c| !c.is_whitespace()).collect()
}

/// Lexer of §3.1. `Err` = lexical error (the input is not a sentence of this evaluator).
pub fn lex(ev: Ev, input: &str) -> Result<Vec<Tok>, String> {
    let cs: Vec<char> = input.chars().filter(|c| !c.is_whitespace()).collect();
    let names = spellings_for(ev);
    let mut out = Vec::new();
    let mut p = 0;
    while p < cs.len() {
        let c = cs[p];
        let simple = match c {
            '@' => Some(Tok::At),
            '+' => Some(Tok::Plus),
            '-' => Some(Tok::Minus),
            '*' => Some(Tok::Star),
            '/' => Some(Tok::Slash),
            '^' => Some(Tok::Caret),
            '(' => Some(Tok::LPar),
            ')' => Some(Tok::RPar),
            ',' => Some(Tok::Comma),
            '!' if has_fact_mod(ev) => Some(Tok::Bang),
            '%' if has_fact_mod(ev) => Some(Tok::Percent),
            '&' if has_bitops(ev) => Some(Tok::Amp),
            '|' if has_bitops(ev) => Some(Tok::Bar),
            '°' if has_degrad(ev) => Some(Tok::Deg),
            'π' if has_consts(ev) => Some(Tok::Pi(true)),
            '⌊' if has_floorceil_brackets(ev) => Some(Tok::LFloor),
            '⌋' if has_floorceil_brackets(ev) => Some(Tok::RFloor),
            '⌈' if has_floorceil_brackets(ev) => Some(Tok::LCeil),
            '⌉' if has_floorceil_brackets(ev) => Some(Tok::RCeil),
            _ => None,
        };
        if let Some(t) = simple {
            out.push(t);
            p += 1;
            continue;
        }
        if has_bitops(ev) && (c == '<' || c == '>') {
            if p + 1 < cs.len() && cs[p + 1] == c {
                out.push(if c == '<' { Tok::Shl } else { Tok::Shr });
                p += 2;
                continue;
            }
            return Err(format!("lone {}", c));
        }
        if c.is_ascii_digit() || c == '.' {
            let st = p;
            while p < cs.len() && (cs[p].is_ascii_digit() || cs[p] == '.') {
                p += 1;
            }
            let run: String = cs[st..p].iter().collect();
            let points = run.chars().filter(|x| *x == '.').count();
            if points > 1 || run == "." || (points > 0 && ev == Ev::I64) {
                return Err(format!("bad number {}", run));
            }
            if ev == Ev::Cpx && p < cs.len() && cs[p] == 'i' {
                p += 1;
                out.push(Tok::ImNum(run));
            } else {
                out.push(Tok::Num(run));
            }
            continue;
        }
        if sup_to_digit(c).is_some() {
            let mut d = String::new();
            while p < cs.len() {
                match sup_to_digit(cs[p]) {
                    Some(x) => {
                        d.push(x);
                        p += 1;
                    }
                    None => break,
                }
            }
            out.push(Tok::Sup(d));
            continue;
        }
        // function names: a token only when immediately followed by '('
        let mut matched = false;
        for (sp, f) in names.iter() {
            let n = sp.chars().count();
            if p + n < cs.len() && cs[p + n] == '(' && cs[p..p + n].iter().copied().eq(sp.chars()) {
                out.push(Tok::Fn(*f, sp));
                p += n;
                matched = true;
                break;
            }
        }
        if matched {
            continue;
        }
        let rest_starts = |w: &str| {
            let n = w.chars().count();
            p + n <= cs.len() && cs[p..p + n].iter().copied().eq(w.chars())
        };
        if has_consts(ev) && rest_starts("pi") {
            out.push(Tok::Pi(false));
            p += 2;
            continue;
        }
        if has_degrad(ev) && rest_starts("rad") {
            out.push(Tok::Rad);
            p += 3;
            continue;
        }
        if has_consts(ev) && c == 'e' {
            out.push(Tok::E);
            p += 1;
            continue;
        }
        if ev == Ev::Cpx && c == 'i' {
            out.push(Tok::ImNum(String::new()));
            p += 1;
            continue;
        }
        return Err(format!("invalid character {:?}", c));
    }
    Ok(out)
}

#[derive(Clone, Copy, PartialEq, Eq, Debug, Hash)]
pub enum Op {
    Or,
    And,
    Shl,
    Shr,
    Add,
    Sub,
    Mul,
    Div,
    Mod,
    Pow,
}

impl Op {
    pub fn sym(self) -> &'static str {
        match self {
            Op::Or => "|",
            Op::And => "&",
            Op::Shl => "<<",
            Op::Shr => ">>",
            Op::Add => "+",
            Op::Sub => "-",
            Op::Mul => "*",
            Op::Div => "/",
            Op::Mod => "%",
            Op::Pow => "^",
        }
    }
}

#[derive(Clone, Copy, PartialEq, Eq, Debug, Hash)]
pub enum Br {
    Round,
    Floor,
    Ceil,
}

#[derive(Clone, PartialEq, Debug)]
pub enum Ast {
    Lit(String),
    ImLit(String),
    Pi(bool),
    E,
    Ans,
    Neg(Box<Ast>),
    Pos(Box<Ast>),
    Bin(Op, Box<Ast>, Box<Ast>),
    Sup(Box<Ast>, String),
    Fact(Box<Ast>),
    Deg(Box<Ast>),
    Rad(Box<Ast>),
    Call(Func, &'static str, Vec<Ast>),
    Group(Br, Box<Ast>),
    IMul(Box<Ast>, Box<Ast>),
}

impl Ast {
    pub fn render(&self) -> String {
        let mut s = String::new();
        self.r(&mut s);
        s
    }
    fn r(&self, o: &mut String) {
        match self {
            Ast::Lit(t) => o.push_str(t),
            Ast::ImLit(t) => {
                o.push_str(t);
                o.push('i');
            }
            Ast::Pi(u) => o.push_str(if *u { "π" } else { "pi" }),
            Ast::E => o.push('e'),
            Ast::Ans => o.push('@'),
            Ast::Neg(a) => {
                o.push('-');
                a.r(o)
            }
            Ast::Pos(a) => {
                o.push('+');
                a.r(o)
            }
            Ast::Bin(op, a, b) => {
                a.r(o);
                o.push_str(op.sym());
                b.r(o)
            }
            Ast::Sup(a, d) => {
                a.r(o);
                o.push_str(&to_sup(d))
            }
            Ast::Fact(a) => {
                a.r(o);
                o.push('!')
            }
            Ast::Deg(a) => {
                a.r(o);
                o.push('°')
            }
            Ast::Rad(a) => {
                a.r(o);
                o.push_str("rad")
            }
            Ast::Call(_, sp, args) => {
                o.push_str(sp);
                o.push('(');
                for (i, a) in args.iter().enumerate() {
                    if i > 0 {
                        o.push(',');
                    }
                    a.r(o);
                }
                o.push(')')
            }
            Ast::Group(b, a) => {
                o.push(match b {
                    Br::Round => '(',
                    Br::Floor => '⌊',
                    Br::Ceil => '⌈',
                });
                a.r(o);
                o.push(match b {
                    Br::Round => ')',
                    Br::Floor => '⌋',
                    Br::Ceil => '⌉',
                })
            }
            Ast::IMul(a, b) => {
                a.r(o);
                b.r(o)
            }
        }
    }
    pub fn children(&self) -> Vec<&Ast> {
        match self {
            Ast::Neg(a) | Ast::Pos(a) | Ast::Sup(a, _) | Ast::Fact(a) | Ast::Deg(a) | Ast::Rad(a) | Ast::Group(_, a) => vec![a],
            Ast::Bin(_, a, b) | Ast::IMul(a, b) => vec![a, b],
            Ast::Call(_, _, v) => v.iter().collect(),
            _ => vec![],
        }
    }
    pub fn size(&self) -> usize {
        1 + self.children().iter().map(|c| c.size()).sum::<usize>()
    }
    pub fn depth(&self) -> usize {
        1 + self.children().iter().map(|c| c.depth()).max().unwrap_or(0)
    }
    pub fn any(&self, f: &dyn Fn(&Ast) -> bool) -> bool {
        f(self) || self.children().iter().any(|c| c.any(f))
    }
    pub fn has_ans(&self) -> bool {
        self.any(&|a| matches!(a, Ast::Ans))
    }
    pub fn has_imul(&self) -> bool {
        self.any(&|a| matches!(a, Ast::IMul(..)))
    }
    /// Short structural tag (operator shape) used for coverage matrices and finding signatures.
    pub fn tag(&self) -> String {
        match self {
            Ast::Lit(_) => "lit".into(),
            Ast::ImLit(_) => "imlit".into(),
            Ast::Pi(_) => "pi".into(),
            Ast::E => "e".into(),
            Ast::Ans => "@".into(),
            Ast::Neg(_) => "neg".into(),
            Ast::Pos(_) => "pos".into(),
            Ast::Bin(op, ..) => op.sym().into(),
            Ast::Sup(..) => "sup".into(),
            Ast::Fact(_) => "!".into(),
            Ast::Deg(_) => "deg".into(),
            Ast::Rad(_) => "rad".into(),
            Ast::Call(f, ..) => f.name().into(),
            Ast::Group(Br::Round, _) => "()".into(),
            Ast::Group(Br::Floor, _) => "floor[]".into(),
            Ast::Group(Br::Ceil, _) => "ceil[]".into(),
            Ast::IMul(..) => "imul".into(),
        }
    }
    /// The node with round groups peeled off.
    pub fn peel(&self) -> &Ast {
        match self {
            Ast::Group(Br::Round, a) => a.peel(),
            x => x,
        }
    }
}

pub struct Parsed {
    pub ast: Ast,
    /// a tighter operator written directly after a looser postfix one (`^`, superscript or `!` after
    /// `°`/`rad`; `!` after a superscript): grouping and acceptance are unspecified (DESIGN §3.2)
    pub unspec: bool,
}

struct P<'a> {
    ev: Ev,
    t: &'a [Tok],
    p: usize,
    unspec: bool,
    depth: usize,
}

type PR = Result<Ast, String>;

impl<'a> P<'a> {
    fn peek(&self) -> Option<&Tok> {
        self.t.get(self.p)
    }
    fn eat(&mut self, t: &Tok) -> bool {
        if self.peek() == Some(t) {
            self.p += 1;
            true
        } else {
            false
        }
    }
    fn expect(&mut self, t: &Tok) -> Result<(), String> {
        if self.eat(t) {
            Ok(())
        } else {
            Err(format!("expected {:?} at {}, found {:?}", t, self.p, self.peek()))
        }
    }
    fn expr(&mut self) -> PR {
        self.depth += 1;
        if self.depth > 4000 {
            return Err("too deep".into());
        }
        let r = self.or();
        self.depth -= 1;
        r
    }
    fn or(&mut self) -> PR {
        let mut l = self.and()?;
        while self.ev == Ev::I64 && self.eat(&Tok::Bar) {
            let r = self.and()?;
            l = Ast::Bin(Op::Or, Box::new(l), Box::new(r));
        }
        Ok(l)
    }
    fn and(&mut self) -> PR {
        let mut l = self.shift()?;
        while self.ev == Ev::I64 && self.eat(&Tok::Amp) {
            let r = self.shift()?;
            l = Ast::Bin(Op::And, Box::new(l), Box::new(r));
        }
        Ok(l)
    }
    fn shift(&mut self) -> PR {
        let mut l = self.add()?;
        loop {
            let op = match self.peek() {
                Some(Tok::Shl) => Op::Shl,
                Some(Tok::Shr) => Op::Shr,
                _ => break,
            };
            self.p += 1;
            let r = self.add()?;
            l = Ast::Bin(op, Box::new(l), Box::new(r));
        }
        Ok(l)
    }
    fn add(&mut self) -> PR {
        let mut l = self.mul()?;
        loop {
            let op = match self.peek() {
                Some(Tok::Plus) => Op::Add,
                Some(Tok::Minus) => Op::Sub,
                _ => break,
            };
            self.p += 1;
            let r = self.mul()?;
            l = Ast::Bin(op, Box::new(l), Box::new(r));
        }
        Ok(l)
    }
    fn mul(&mut self) -> PR {
        let mut l = self.pow()?;
        let mut after_postfix = false;
        loop {
            match self.peek() {
                Some(Tok::Star) | Some(Tok::Slash) | Some(Tok::Percent) => {
                    let op = match self.peek() {
                        Some(Tok::Star) => Op::Mul,
                        Some(Tok::Slash) => Op::Div,
                        _ => Op::Mod,
                    };
                    self.p += 1;
                    let r = self.pow()?;
                    l = Ast::Bin(op, Box::new(l), Box::new(r));
                    after_postfix = false;
                }
                Some(Tok::Deg) => {
                    self.p += 1;
                    l = Ast::Deg(Box::new(l));
                    after_postfix = true;
                }
                Some(Tok::Rad) => {
                    self.p += 1;
                    l = Ast::Rad(Box::new(l));
                    after_postfix = true;
                }
                // tighter operator directly after a looser postfix one: unspecified region; the tree
                // built here applies it to everything parsed so far
                Some(Tok::Caret) if after_postfix => {
                    self.unspec = true;
                    self.p += 1;
                    let r = self.unary()?;
                    l = Ast::Bin(Op::Pow, Box::new(l), Box::new(r));
                }
                Some(Tok::Sup(d)) if after_postfix => {
                    let d = d.clone();
                    self.unspec = true;
                    self.p += 1;
                    l = Ast::Sup(Box::new(l), d);
                }
                Some(Tok::Bang) if after_postfix => {
                    self.unspec = true;
                    self.p += 1;
                    l = Ast::Fact(Box::new(l));
                    l = self.tail(l, true)?;
                }
                _ => break,
            }
        }
        Ok(l)
    }
    fn pow(&mut self) -> PR {
        let mut l = self.unary()?;
        let mut after_sup = false;
        loop {
            match self.peek() {
                Some(Tok::Caret) => {
                    self.p += 1;
                    let r = self.unary()?;
                    l = Ast::Bin(Op::Pow, Box::new(l), Box::new(r));
                    after_sup = false;
                }
                Some(Tok::Sup(d)) => {
                    let d = d.clone();
                    self.p += 1;
                    l = Ast::Sup(Box::new(l), d);
                    after_sup = true;
                }
                Some(Tok::Bang) if after_sup => {
                    self.unspec = true;
                    self.p += 1;
                    l = Ast::Fact(Box::new(l));
                    l = self.tail(l, true)?;
                }
                _ => break,
            }
        }
        Ok(l)
    }
    fn unary(&mut self) -> PR {
        self.depth += 1;
        if self.depth > 4000 {
            return Err("too deep".into());
        }
        let r = match self.peek() {
            Some(Tok::Minus) => {
                self.p += 1;
                Ok(Ast::Neg(Box::new(self.unary()?)))
            }
            Some(Tok::Plus) => {
                self.p += 1;
                Ok(Ast::Pos(Box::new(self.unary()?)))
            }
            _ => self.post(),
        };
        self.depth -= 1;
        r
    }
    fn post(&mut self) -> PR {
        let mut l = self.prim()?;
        while self.peek() == Some(&Tok::Bang) {
            self.p += 1;
            l = Ast::Fact(Box::new(l));
            l = self.tail(l, true)?;
        }
        Ok(l)
    }
    /// Implicit product: `left` followed by a trigger token denotes `left * R`, R a pow-level expression.
    fn tail(&mut self, left: Ast, num_triggers: bool) -> PR {
        let trig = match self.peek() {
            Some(Tok::LPar) | Some(Tok::LFloor) | Some(Tok::LCeil) | Some(Tok::Fn(..)) => true,
            Some(Tok::Num(_)) | Some(Tok::ImNum(_)) => num_triggers,
            _ => false,
        };
        if trig {
            let r = self.pow()?;
            Ok(Ast::IMul(Box::new(left), Box::new(r)))
        } else {
            Ok(left)
        }
    }
    fn prim(&mut self) -> PR {
        let t = match self.peek() {
            Some(t) => t.clone(),
            None => return Err("unexpected end".into()),
        };
        match t {
            Tok::Num(s) => {
                self.p += 1;
                self.tail(Ast::Lit(s), false)
            }
            Tok::ImNum(s) => {
                self.p += 1;
                self.tail(Ast::ImLit(s), false)
            }
            Tok::Pi(u) => {
                self.p += 1;
                Ok(Ast::Pi(u))
            }
            Tok::E => {
                self.p += 1;
                Ok(Ast::E)
            }
            Tok::At => {
                self.p += 1;
                Ok(Ast::Ans)
            }
            Tok::LPar | Tok::LFloor | Tok::LCeil => {
                self.p += 1;
                let (br, close) = match t {
                    Tok::LPar => (Br::Round, Tok::RPar),
                    Tok::LFloor => (Br::Floor, Tok::RFloor),
                    _ => (Br::Ceil, Tok::RCeil),
                };
                let e = self.expr()?;
                self.expect(&close)?;
                self.tail(Ast::Group(br, Box::new(e)), true)
            }
            Tok::Fn(f, sp) => {
                self.p += 1;
                self.expect(&Tok::LPar)?;
                let mut args = Vec::new();
                match f.arity() {
                    Arity::One => {
                        args.push(self.expr()?);
                    }
                    Arity::Two => {
                        args.push(self.expr()?);
                        self.expect(&Tok::Comma)?;
                        args.push(self.expr()?);
                    }
                    Arity::Var => {
                        if self.peek() == Some(&Tok::RPar) {
                            if f != Func::Avg {
                                return Err("empty argument list".into());
                            }
                        } else {
                            args.push(self.expr()?);
                            while self.eat(&Tok::Comma) {
                                args.push(self.expr()?);
                            }
                        }
                    }
                }
                self.expect(&Tok::RPar)?;
                self.tail(Ast::Call(f, sp, args), true)
            }
            other => Err(format!("unexpected {:?} at {}", other, self.p)),
        }
    }
}

/// Recogniser/parser of §3.2: `Err` = Reject.
pub fn parse_tokens(ev: Ev, toks: &[Tok]) -> Result<Parsed, String> {
    let mut p = P { ev, t: toks, p: 0, unspec: false, depth: 0 };
    let ast = p.expr()?;
    if p.p != toks.len() {
        return Err(format!("trailing token {:?} at {}", toks[p.p], p.p));
    }
    Ok(Parsed { ast, unspec: p.unspec })
}

pub fn parse(ev: Ev, input: &str) -> Result<Parsed, String> {
    let toks = lex(ev, input)?;
    parse_tokens(ev, &toks)
}

/// Render a token sequence back to text (no separators; tokens are self-delimiting except name+'(').
pub fn render_tokens(toks: &[Tok]) -> String {
    let mut s = String::new();
    for t in toks {
        match t {
            Tok::Num(x) => s.push_str(x),
            Tok::ImNum(x) => {
                s.push_str(x);
                s.push('i')
            }
            Tok::Sup(d) => s.push_str(&to_sup(d)),
            Tok::At => s.push('@'),
            Tok::Plus => s.push('+'),
            Tok::Minus => s.push('-'),
            Tok::Star => s.push('*'),
            Tok::Slash => s.push('/'),
            Tok::Caret => s.push('^'),
            Tok::Percent => s.push('%'),
            Tok::Bang => s.push('!'),
            Tok::Amp => s.push('&'),
            Tok::Bar => s.push('|'),
            Tok::Shl => s.push_str("<<"),
            Tok::Shr => s.push_str(">>"),
            Tok::LPar => s.push('('),
            Tok::RPar => s.push(')'),
            Tok::LFloor => s.push('⌊'),
            Tok::RFloor => s.push('⌋'),
            Tok::LCeil => s.push('⌈'),
            Tok::RCeil => s.push('⌉'),
            Tok::Comma => s.push(','),
            Tok::Deg => s.push('°'),
            Tok::Rad => s.push_str("rad"),
            Tok::Pi(true) => s.push('π'),
            Tok::Pi(false) => s.push_str("pi"),
            Tok::E => s.push('e'),
            Tok::Fn(_, sp) => s.push_str(sp),
        }
    }
    s
}
