//! Reference evaluation for eval_i64: exact arithmetic in i128 with range checks (DESIGN Appendix C).

use crate::syntax::{Ast, Br, Func, Op};
use crate::val::{Outcome, Val};

#[derive(Clone, Copy, Debug, PartialEq)]
pub enum RI {
    /// must be Ok(v)
    V(i64),
    /// Ok(v) or Err
    VOrErr(i64),
    MustErr,
    /// real-valued function: |result - real| <= 1
    Near(f64),
    Unspec,
}

const MIN: i128 = i64::MIN as i128;
const MAX: i128 = i64::MAX as i128;

fn fit(x: i128) -> RI {
    if (MIN..=MAX).contains(&x) {
        RI::V(x as i64)
    } else {
        RI::MustErr
    }
}

pub fn pow_exact(b: i128, e: u64) -> Option<i128> {
    // exact b^e if it fits i64, else None
    if e == 0 {
        return Some(1);
    }
    match b {
        0 => return Some(0),
        1 => return Some(1),
        -1 => return Some(if e % 2 == 0 { 1 } else { -1 }),
        _ => {}
    }
    if e > 64 {
        return None;
    }
    let mut r: i128 = 1;
    for _ in 0..e {
        r = r.checked_mul(b)?;
        if !(MIN..=MAX).contains(&r) {
            return None;
        }
    }
    Some(r)
}

pub fn gcd_u(mut a: u128, mut b: u128) -> u128 {
    while b != 0 {
        let t = a % b;
        a = b;
        b = t;
    }
    a
}

/// Combine child expectations: returns Ok(values, any_soft) or the short-circuit result.
fn operands(rs: &[RI]) -> Result<(Vec<i64>, bool), RI> {
    if rs.iter().any(|r| matches!(r, RI::Unspec | RI::Near(_))) {
        return Err(RI::Unspec);
    }
    if rs.iter().any(|r| *r == RI::MustErr) {
        return Err(RI::MustErr);
    }
    let mut soft = false;
    let mut vs = vec![];
    for r in rs {
        match r {
            RI::V(v) => vs.push(*v),
            RI::VOrErr(v) => {
                soft = true;
                vs.push(*v)
            }
            _ => unreachable!(),
        }
    }
    Ok((vs, soft))
}

fn soften(r: RI, soft: bool) -> RI {
    if !soft {
        return r;
    }
    match r {
        RI::V(v) => RI::VOrErr(v),
        RI::Near(_) => RI::Unspec,
        other => other,
    }
}

pub fn binop(op: Op, x: i64, y: i64) -> RI {
    let (a, b) = (x as i128, y as i128);
    match op {
        Op::Add => fit(a + b),
        Op::Sub => fit(a - b),
        Op::Mul => fit(a * b),
        Op::Div => {
            if b == 0 {
                RI::MustErr
            } else {
                fit(a / b)
            }
        }
        Op::Mod => {
            if b == 0 {
                RI::MustErr
            } else if x == i64::MIN && y == -1 {
                RI::VOrErr(0)
            } else {
                fit(a % b)
            }
        }
        Op::Pow => {
            if !(0..=u32::MAX as i128).contains(&b) {
                RI::Unspec
            } else {
                match pow_exact(a, b as u64) {
                    Some(v) => RI::V(v as i64),
                    None => RI::MustErr,
                }
            }
        }
        Op::And => RI::V(x & y),
        Op::Or => RI::V(x | y),
        Op::Shr => {
            if !(0..=63).contains(&y) {
                RI::MustErr
            } else {
                RI::V(x >> y)
            }
        }
        Op::Shl => {
            if !(0..=63).contains(&y) {
                RI::MustErr
            } else {
                let exact = a << y;
                if (MIN..=MAX).contains(&exact) {
                    RI::V(exact as i64)
                } else {
                    RI::VOrErr(((x as u64) << y) as i64)
                }
            }
        }
    }
}

pub fn fact(n: i64) -> RI {
    if n < 0 {
        return RI::Unspec;
    }
    if n > 20 {
        return RI::MustErr;
    }
    let mut r: i64 = 1;
    for i in 2..=n {
        r *= i;
    }
    RI::V(r)
}

fn near(v: f64) -> RI {
    if v.is_finite() && v.abs() < 9007199254740992.0 {
        RI::Near(v)
    } else {
        RI::Unspec
    }
}

pub fn func(f: Func, a: &[i64]) -> RI {
    let x = a[0];
    match f {
        Func::Abs => fit((x as i128).abs()),
        Func::Sgn => RI::V(x.signum()),
        Func::Mod => binop(Op::Mod, a[0], a[1]),
        Func::Pow => binop(Op::Pow, a[0], a[1]),
        Func::Sqrt if x >= 0 => near((x as f64).sqrt()),
        Func::Ln if x > 0 => near((x as f64).ln()),
        Func::Lb if x > 0 => near((x as f64).log2()),
        Func::Exp => near((x as f64).exp()),
        Func::Log if a[0] > 0 && a[1] > 1 => near((a[0] as f64).ln() / (a[1] as f64).ln()),
        // root(n, x) = x^(1/n)
        Func::Root if a[1] > 0 && a[0] != 0 => near((a[1] as f64).powf(1.0 / a[0] as f64)),
        Func::Exp2 if (0..=62).contains(&x) => RI::V(1i64 << x),
        _ => RI::Unspec,
    }
}

pub fn agg(f: Func, xs: &[i64]) -> RI {
    if xs.is_empty() {
        return if f == Func::Avg { RI::V(0) } else { RI::Unspec };
    }
    match f {
        Func::Min => RI::V(*xs.iter().min().unwrap()),
        Func::Max => RI::V(*xs.iter().max().unwrap()),
        Func::Avg => {
            let sum: i128 = xs.iter().map(|x| *x as i128).sum();
            let v = (sum / xs.len() as i128) as i64;
            let pos: i128 = xs.iter().filter(|x| **x > 0).map(|x| *x as i128).sum();
            let neg: i128 = xs.iter().filter(|x| **x < 0).map(|x| *x as i128).sum();
            if pos > MAX || neg < MIN {
                RI::VOrErr(v)
            } else {
                RI::V(v)
            }
        }
        Func::Med => {
            let mut s = xs.to_vec();
            s.sort();
            let n = s.len();
            if n % 2 == 1 {
                RI::V(s[n / 2])
            } else {
                let t = s[n / 2 - 1] as i128 + s[n / 2] as i128;
                let v = (t / 2) as i64;
                if (MIN..=MAX).contains(&t) {
                    RI::V(v)
                } else {
                    RI::VOrErr(v)
                }
            }
        }
        Func::Gcd => {
            if xs.iter().any(|x| *x == i64::MIN) {
                return RI::Unspec;
            }
            let g = xs.iter().fold(0u128, |g, x| gcd_u(g, x.unsigned_abs() as u128));
            RI::V(g as i64)
        }
        Func::Lcm => {
            if xs.iter().any(|x| *x == i64::MIN) {
                return RI::Unspec;
            }
            // an implementation folding pairwise may overflow on the way even when a zero
            // argument makes the final result 0: value or Err there
            let zero = xs.iter().any(|x| *x == 0);
            let mut l: u128 = 1;
            for x in xs.iter().filter(|x| **x != 0) {
                let a = x.unsigned_abs() as u128;
                l = l / gcd_u(l, a) * a;
                if l > MAX as u128 {
                    return if zero { RI::VOrErr(0) } else { RI::Unspec };
                }
            }
            RI::V(if zero { 0 } else { l as i64 })
        }
        _ => RI::Unspec,
    }
}

pub fn parse_lit(t: &str) -> Option<i64> {
    t.parse::<i64>().ok()
}

pub fn eval(ast: &Ast, ph: i64) -> RI {
    match ast {
        Ast::Lit(t) => match parse_lit(t) {
            Some(v) => RI::V(v),
            None => RI::Unspec,
        },
        Ast::Ans => RI::V(ph),
        Ast::Group(Br::Round, a) | Ast::Pos(a) => eval(a, ph),
        Ast::Neg(a) => match operands(&[eval(a, ph)]) {
            Ok((v, s)) => soften(fit(-(v[0] as i128)), s),
            Err(e) => e,
        },
        Ast::Bin(op, a, b) => match operands(&[eval(a, ph), eval(b, ph)]) {
            Ok((v, s)) => soften(binop(*op, v[0], v[1]), s),
            Err(e) => e,
        },
        Ast::IMul(a, b) => match operands(&[eval(a, ph), eval(b, ph)]) {
            Ok((v, s)) => soften(binop(Op::Mul, v[0], v[1]), s),
            Err(e) => e,
        },
        Ast::Sup(a, d) => match parse_lit(d) {
            None => RI::Unspec,
            Some(e) => match operands(&[eval(a, ph)]) {
                Ok((v, s)) => soften(binop(Op::Pow, v[0], e), s),
                Err(e) => e,
            },
        },
        Ast::Fact(a) => match operands(&[eval(a, ph)]) {
            Ok((v, s)) => soften(fact(v[0]), s),
            Err(e) => e,
        },
        Ast::Call(f, _, args) => {
            let rs: Vec<RI> = args.iter().map(|a| eval(a, ph)).collect();
            match operands(&rs) {
                Ok((v, s)) => {
                    let r = match f {
                        Func::Min | Func::Max | Func::Avg | Func::Med | Func::Gcd | Func::Lcm => agg(*f, &v),
                        _ => func(*f, &v),
                    };
                    soften(r, s)
                }
                Err(e) => e,
            }
        }
        _ => RI::Unspec,
    }
}

pub fn judge(r: &RI, out: &Outcome, panic_counts: bool) -> Option<(&'static str, String)> {
    match (r, out) {
        (RI::Unspec, _) => None,
        (_, Outcome::Budget(_)) => None,
        (RI::MustErr, Outcome::Panic(m, l)) | (RI::V(_), Outcome::Panic(m, l)) | (RI::VOrErr(_), Outcome::Panic(m, l)) | (RI::Near(_), Outcome::Panic(m, l)) => {
            if panic_counts {
                Some(("panic", format!("panicked ({} @{}) where {:?} is due", m, l, r)))
            } else {
                None
            }
        }
        (RI::V(v), Outcome::Ok(Val::I(g))) | (RI::VOrErr(v), Outcome::Ok(Val::I(g))) => {
            if v == g {
                None
            } else {
                Some(("wrong-value", format!("expected {}, got {}", v, g)))
            }
        }
        (RI::V(v), Outcome::Err(m)) => Some(("err-where-value", format!("expected {}, got Err({})", v, m))),
        (RI::VOrErr(_), Outcome::Err(_)) => None,
        (RI::MustErr, Outcome::Ok(g)) => Some(("value-where-err", format!("expected Err, got {}", g.show()))),
        (RI::MustErr, Outcome::Err(_)) => None,
        (RI::Near(v), Outcome::Ok(Val::I(g))) => {
            if (*g as f64 - v).abs() <= 1.0 {
                None
            } else {
                Some(("outside-tolerance", format!("expected within 1 of {:?}, got {}", v, g)))
            }
        }
        (RI::Near(v), Outcome::Err(m)) => Some(("err-where-value", format!("expected about {:?}, got Err({})", v, m))),
        (_, Outcome::Ok(g)) => Some(("wrong-type", format!("got {}", g.show()))),
    }
}
