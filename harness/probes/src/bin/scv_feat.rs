//! Corpus runner for C17. Input lines: id \t case-json \t evaluator \t placeholder \t escaped-expr.
//! Output lines: id \t case-json \t outcome-image. Evaluators that are not selected are skipped.
#![allow(unused_imports, dead_code, unused_variables)]

// positive export probes: these `use` lines must resolve in every configuration that selects them
#[cfg(feature = "eval_complex")]
use string_calculator::eval_complex;
#[cfg(feature = "eval_decimal")]
use string_calculator::eval_decimal;
#[cfg(feature = "eval_f64")]
use string_calculator::eval_f64;
#[cfg(feature = "eval_i64")]
use string_calculator::eval_i64;
#[cfg(feature = "eval_number")]
use string_calculator::{eval_number, Number};
use string_calculator::ParseError;

// negative export probes: each of these must be an unresolved import when its evaluator is not selected
#[cfg(feature = "probe_eval_complex")]
use string_calculator::eval_complex as _probe_complex;
#[cfg(feature = "probe_eval_decimal")]
use string_calculator::eval_decimal as _probe_decimal;
#[cfg(feature = "probe_eval_f64")]
use string_calculator::eval_f64 as _probe_f64;
#[cfg(feature = "probe_eval_i64")]
use string_calculator::eval_i64 as _probe_i64;
#[cfg(feature = "probe_eval_number")]
use string_calculator::eval_number as _probe_number;

fn unescape(s: &str) -> String {
    let mut out = String::new();
    let mut it = s.chars();
    while let Some(c) = it.next() {
        if c != '\\' {
            out.push(c);
            continue;
        }
        match it.next() {
            Some('t') => out.push('\t'),
            Some('n') => out.push('\n'),
            Some('r') => out.push('\r'),
            Some('\\') => out.push('\\'),
            Some('u') => {
                let h: String = it.by_ref().take(6).collect();
                if let Some(ch) = u32::from_str_radix(&h, 16).ok().and_then(char::from_u32) {
                    out.push(ch)
                }
            }
            Some(o) => out.push(o),
            None => {}
        }
    }
    out
}

fn err_img(e: &ParseError) -> String {
    match e {
        ParseError::UnableToParse(m) => format!("err UnableToParse:{}", m),
        ParseError::InvalidOperator(m) => format!("err InvalidOperator:{}", m),
    }
}

fn hexf(s: &str) -> f64 {
    f64::from_bits(u64::from_str_radix(s, 16).unwrap_or(0))
}

fn eval(ev: &str, ph: &str, expr: &str) -> Option<String> {
    let (kind, rest) = ph.split_once(':')?;
    match ev {
        #[cfg(feature = "eval_f64")]
        "f64" => Some(match eval_f64(expr.to_string(), hexf(rest)) {
            Ok(v) => format!("ok f:{:016x}", if v.is_nan() { f64::NAN.to_bits() } else { v.to_bits() }),
            Err(e) => err_img(&e),
        }),
        #[cfg(feature = "eval_i64")]
        "i64" => Some(match eval_i64(expr.to_string(), rest.parse().unwrap_or(0)) {
            Ok(v) => format!("ok i:{}", v),
            Err(e) => err_img(&e),
        }),
        #[cfg(feature = "eval_decimal")]
        "decimal" => {
            let (m, sc) = rest.split_once("e-")?;
            let (neg, m) = match m.strip_prefix('-') {
                Some(x) => (true, x),
                None => (false, m),
            };
            let mant: u128 = m.parse().ok()?;
            let mut d = rust_decimal::Decimal::from_parts(mant as u32, (mant >> 32) as u32, (mant >> 64) as u32, neg, sc.parse().ok()?);
            if neg && mant == 0 {
                d.set_sign_negative(true);
            }
            Some(match eval_decimal(expr.to_string(), d) {
                Ok(v) => format!("ok d:{}{}e-{}", if v.is_sign_negative() { "-" } else { "" }, v.mantissa().unsigned_abs(), v.scale()),
                Err(e) => err_img(&e),
            })
        }
        #[cfg(feature = "eval_complex")]
        "complex" => {
            let (a, b) = rest.split_once(',')?;
            Some(match eval_complex(expr.to_string(), num_complex::Complex::new(hexf(a), hexf(b))) {
                Ok(v) => {
                    let n = |x: f64| if x.is_nan() { f64::NAN.to_bits() } else { x.to_bits() };
                    format!("ok c:{:016x},{:016x}", n(v.re), n(v.im))
                }
                Err(e) => err_img(&e),
            })
        }
        #[cfg(feature = "eval_number")]
        "number" => {
            let p = if kind == "ni" { Number::Integer(rest.parse().unwrap_or(0)) } else { Number::Float(hexf(rest)) };
            Some(match eval_number(expr.to_string(), p) {
                Ok(Number::Integer(i)) => format!("ok ni:{}", i),
                Ok(Number::Float(f)) => format!("ok nf:{:016x}", if f.is_nan() { f64::NAN.to_bits() } else { f.to_bits() }),
                Err(e) => err_img(&e),
            })
        }
        _ => None,
    }
}

fn main() {
    std::panic::set_hook(Box::new(|_| {}));
    let path = std::env::args().nth(1).expect("corpus path");
    let text = std::fs::read_to_string(path).expect("corpus");
    let mut exports: Vec<&str> = vec![];
    #[cfg(feature = "eval_f64")]
    exports.push("f64");
    #[cfg(feature = "eval_i64")]
    exports.push("i64");
    #[cfg(feature = "eval_decimal")]
    exports.push("decimal");
    #[cfg(feature = "eval_complex")]
    exports.push("complex");
    #[cfg(feature = "eval_number")]
    exports.push("number");
    println!("EXPORTS\t{}", exports.join(","));
    let work = std::thread::Builder::new().stack_size(16 << 20).spawn(move || {
        for line in text.lines() {
            let p: Vec<&str> = line.splitn(5, '\t').collect();
            if p.len() != 5 {
                continue;
            }
            let expr = unescape(p[4]);
            let (ev, ph) = (p[2].to_string(), p[3].to_string());
            let r = std::panic::catch_unwind(|| eval(&ev, &ph, &expr));
            match r {
                Ok(Some(img)) => println!("{}\t{}\t{}", p[0], p[1], img.replace('\n', "\\n").replace('\t', "\\t")),
                Ok(None) => {}
                Err(_) => println!("{}\t{}\tpanic", p[0], p[1]),
            }
        }
    });
    let _ = work.unwrap().join();
}
